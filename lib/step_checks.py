"""C04 (step rule), C05 (walk accounting), C06 (no engine state), C07 (totality),
C08 (atomic emission), C18 (permanent bindings): one driver family (stepdrv), two
judges (Trace_Step, Trace_Walk over Machine.tla / Actions.tla)."""
import json
import os
import sys
import time

import vlib
from vlib import log

sys.setrecursionlimit(100000)

# per property: label key, list of (generator mode, judge, n quick, n thorough)
PLAN = {
    "C04": ("c04", [("step", "Step", 6000, 150000), ("walk", "Walk", 800, 20000)]),
    "C05": ("c05", [("walk", "Walk", 2500, 60000)]),
    "C06": ("c06", [("frame", "Step", 4000, 100000), ("walk", "Walk", 1000, 25000)]),
    "C07": ("c07", [("total", "Step", 4000, 100000), ("totalwalk", "Walk", 1000, 25000), ("exotic", "Step", 600, 10000)]),
    "C08": ("c08", [("emit", "Step", 5000, 120000), ("walk", "Walk", 800, 20000)]),
    "C18": ("c18", [("perm", "Step", 6000, 150000)]),
    "C09": ("c09", [("persist", "Persist", 4000, 100000)]),
}

ASSUME = {
    "C04": ["branch patterns restricted to the fragment where the reference matcher is exact (NodeJudgeable, re-checked in TLA+)",
            "several candidates without a guard: 'too many' error or any one of them admitted; guard candidates in any order",
            "states given with nil bindings are judged for totality only", "error texts compared by class (fixed table) and presence"],
    "C05": ["messages are non-null", "split equivalence claimed only for deterministic walks (every stride's outcome set is a singleton) where no batch stopped at the limit or a breakpoint",
            "the default limit used when no control is given is lowered to 25 by the driver (core.DefaultControl) to keep error chains shallow"],
    "C06": ["equality of two runs claimed where the outcome set of every step is a singleton",
            "spec snapshot = patterns, targets, branching types, sources, error settings (what the engine could write)"],
    "C07": ["panic trap + 8 s watchdog around every call; looping actions run under a 40 ms deadline", "a nil *State is not a state and is not generated"],
    "C08": ["ECMAScript renderings of the action language; native actions that return a partial execution with their error are the named deviation NativePartial (outside C08's quantifier)"],
    "C09": ["specifications deterministic (DetSpec re-checked in TLA+); ECMAScript actions only; messages delivered one at a time; "
            "round trip = encoding/json Marshal/Unmarshal of core.State (the form sio's store and mcrew's storage persist)",
            "numbers compared by value (int64 and float64 encode alike), so only behavioural differences are reported"],
    "C18": ["permanent names = names ending in '!' (collected by the encoder)"],
}


def run(pid, tier, seed, replay):
    t0 = time.time()
    wd = vlib.fresh_dir(pid)
    drv = vlib.build_driver("stepdrv", wd)
    rep = vlib.Report(pid)
    key, plan = PLAN[pid]
    runs = []
    if replay:
        out = os.path.join(wd, "replay_cases.ndjson")
        vlib.run([drv, "replay", replay, out], timeout=600)
        kind = json.load(open(replay))["case"].get("kind", "")
        runs.append(("replay", "Persist" if kind == "persist" else ("Walk" if "walk" in kind else "Step"), out))
    else:
        for i, (mode, judge, nq, nt) in enumerate(plan):
            n = nq if tier == "quick" else nt
            out = os.path.join(wd, mode + ".ndjson")
            p = vlib.run([drv, "gen", mode, str(n), str(seed * 100 + i), out], timeout=6000, check=False)
            if p.returncode != 0:
                if pid == "C07" and "fatal error:" in p.stdout:
                    # the host process itself died while processing: exactly what C07 forbids
                    rep.reject("the driver process was killed by the Go runtime while processing generated cases (%s)" % mode, [],
                               {"property": pid, "labels": ["host-process-crashed"], "mode": mode, "seed": seed * 100 + i, "n": n,
                                "how_to_rerun": "stepdrv gen %s %d %d out.ndjson" % (mode, n, seed * 100 + i), "output": p.stdout[:3000]})
                    continue
                raise vlib.CannotRun("stepdrv failed (%s):\n%s" % (mode, p.stdout[-3000:]))
            runs.append((mode, judge, out))
    collections = None
    if pid == "C07" and not replay:
        # ES2015 collections that contain themselves (one script per process: see harness/cmd/stepdrv, mode collections).  A
        # process that dies is a rejected case; its signature (the input class - these scripts - and the call site of the
        # overflow - goja's export of Map/Set objects) is computed here, from the crash, because a dead process leaves no trace
        # for a TLA+ judge.  The two control scripts (collections that do not contain themselves) must simply succeed.
        collections = {"scripts": 0, "died": 0, "failed_normally": 0, "succeeded": 0}
        for k in range(7):
            o = os.path.join(wd, "collections_%d.ndjson" % k)
            p = vlib.run([drv, "collections", str(k), o], timeout=600, check=False)
            collections["scripts"] += 1
            control = k >= 5
            if p.returncode != 0:
                if "fatal error:" not in p.stdout and "panic:" not in p.stdout:
                    raise vlib.CannotRun("stepdrv collections %d failed:\n%s" % (k, p.stdout[-2000:]))
                collections["died"] += 1
                frames = [l.split("(")[0].strip() for l in p.stdout.splitlines() if l.startswith("github.com/")]
                in_export = [f for f in frames[:60] if f.endswith("goja.exportValue") or ".export" in f]
                sig = []
                if (not control and "fatal error: stack overflow" in p.stdout and len(in_export) >= 20
                        and any("mapObject" in l or "setObject" in l for l in p.stdout.splitlines()[:400])):
                    sig = ["GojaExportOfSelfContainingMapOrSet"]
                rep.reject("the driver process was killed by the Go runtime while running collections script %d" % k, sig,
                           {"property": pid, "labels": ["host-process-crashed"], "mode": "collections", "script": k,
                            "how_to_rerun": "stepdrv collections %d out.ndjson" % k, "output": p.stdout[:3000]})
                continue
            c = json.loads(open(o).readline())
            failed = c["outcome"] == "error" or c["to"] == "error"
            if control and failed:
                rep.reject("a script that uses a Map and a Set as local data fails: %s" % c["errtext"], [],
                           {"property": pid, "labels": ["control-script-fails"], "mode": "collections", "script": k, "case": c})
            collections["failed_normally" if failed else "succeeded"] += 1
        log("  collections scripts: %s" % collections)
    tot = {"generated": 0, "distinct": 0}
    exhaustive = False
    if not replay and pid in ("C04", "C08", "C18"):
        # the bounded universe of node shapes, enumerated completely by TLC, exported and fed to the real Spec.Step
        cfg = "MC_Step.cfg" if tier == "quick" else "MC_Step_full.cfg"
        d = vlib.fresh_dir(pid, "mc_step")
        r = vlib.tlc_ok(d, "MC_Step.tla", cfg, workers=1, timeout=3000, heap="8g")
        tot["generated"] += r["generated"]
        tot["distinct"] += r["distinct"]
        exp = os.path.join(d, "export.ndjson")
        log("  MC_Step (%s): %d step cases enumerated, sanity theorems of the step relation hold (%.0fs)" % (cfg, r["distinct"], r["wall"]))
        # drive in parallel shards
        import concurrent.futures as cf
        lines = open(exp).read().splitlines()
        nsh = 16

        def shard(i):
            part = lines[i::nsh]
            if not part:
                return None
            inp = os.path.join(wd, "univ_in_%02d.ndjson" % i)
            open(inp, "w").write("\n".join(part) + "\n")
            o = os.path.join(wd, "univ_out_%02d.ndjson" % i)
            vlib.run([drv, "univ", inp, o], timeout=6000)
            return o
        with cf.ThreadPoolExecutor(max_workers=nsh) as ex:
            outs = [o for o in ex.map(shard, range(nsh)) if o]
        up = os.path.join(wd, "univ.ndjson")
        with open(up, "w") as f:
            for o in outs:
                f.write(open(o).read())
        runs.insert(0, ("univ", "Step", up))
        exhaustive = tier == "quick"
    if pid == "C07" and not replay:
        # the document half of C07: loading and compiling any JSON or YAML document yields a specification or an error
        ldrv = vlib.build_driver("loaderdrv", wd)
        out = os.path.join(wd, "malformed.ndjson")
        vlib.run([ldrv, "malformed", str(300 if tier == "quick" else 5000), str(seed), out], timeout=6000)
        runs.append(("documents", "Loader", out))
    if pid == "C05" and not replay:
        # every configuration of the Walk model (MC_Walk), explored exhaustively by TLC, walked by the real Spec.Walk
        d = vlib.fresh_dir(pid, "mc_walk")
        r = vlib.tlc_ok(d, "MC_Walk.tla", "MC_Walk.cfg", workers=1, timeout=3000, heap="8g")
        tot["generated"] += r["generated"]
        tot["distinct"] += r["distinct"]
        lines = open(os.path.join(d, "export.ndjson")).read().splitlines()
        log("  MC_Walk: %d states, %d configurations; ConsumedInOrder, StepBound, TruthfulRemainder, Continuous, DoneIsQuiescent hold (%.0fs)" % (r["distinct"], len(lines), r["wall"]))
        import concurrent.futures as cf

        def wshard(i):
            part = lines[i::16]
            inp = os.path.join(wd, "uw_in_%02d.ndjson" % i)
            open(inp, "w").write("\n".join(part) + "\n")
            o = os.path.join(wd, "uw_out_%02d.ndjson" % i)
            vlib.run([drv, "univwalk", inp, o], timeout=6000)
            return o
        with cf.ThreadPoolExecutor(max_workers=16) as ex:
            outs = list(ex.map(wshard, range(16)))
        up = os.path.join(wd, "univwalk.ndjson")
        with open(up, "w") as f:
            for o in outs:
                f.write(open(o).read())
        runs.insert(0, ("univwalk", "Walk", up))
        exhaustive = True
    if pid == "C06" and not replay:
        # what a step is given is only read: compiled actions (through core.FuncAction) executed from several goroutines on ONE
        # bindings map that has a permanent binding, under the race detector (a write shows as a race, or ends the process)
        idrv = vlib.build_driver("interpdrv", wd, race=True)
        io2 = os.path.join(wd, "shared_race.ndjson")
        pr = vlib.run([idrv, "iso", "40" if tier == "quick" else "300", str(seed + 2), io2], env=dict(os.environ, GORACE="halt_on_error=0"), timeout=3000, check=False)
        if "WARNING: DATA RACE" in pr.stdout and "FuncAction" in pr.stdout:
            rep.reject("a compiled action wrote to the bindings it was given (race report on one shared bindings map)", [], {"property": pid, "labels": ["given-bindings-written"], "race": pr.stdout[-3000:]})
        elif pr.returncode != 0 and ("fatal error:" in pr.stdout or "panic:" in pr.stdout):
            rep.reject("executions on one shared bindings map ended the process", [], {"property": pid, "labels": ["given-bindings-written"], "output": pr.stdout[-3000:]})
    crew_runs = None
    if pid == "C08" and not replay:
        # "... and as seen through a crew's reported emissions": machines whose walk for one message passes several emitting
        # actions, some of which fail afterwards, with error handlers that emit and fail themselves, run in a real sio.Crew;
        # what the crew reports (and the machines' states) must be what the composed model (SheensOps.tla) computes
        sdrv = vlib.build_driver("sheensdrv", wd)
        cout = os.path.join(wd, "emitcrew.ndjson")
        vlib.run([sdrv, "emitcrew", str(400 if tier == "quick" else 8000), str(seed), cout], timeout=6000)
        jd = vlib.fresh_dir(pid, "judge_emitcrew")
        badc, statsc, tc = vlib.judge_cases(jd, "Trace_Sheens.tla", "Trace_Sheens.cfg", cout)
        for b in badc:
            c = b["case"]
            rep.reject("emitcrew: the crew's reported emissions or states differ from the composed model at input(s) %s on %s" % (b.get("at"), c["raw"][:400]), b.get("sigs", []),
                       {"property": pid, "labels": sorted(b["sheens"]), "source": "emitcrew", "at": b.get("at"), "case": {"raw": c["raw"], "steps": c["steps"]}})
        log("  judged emitcrew with Trace_Sheens: %d crew runs, %d rejected" % (tc["lines"], len(badc)))
        tot["generated"] += tc["generated"]
        tot["distinct"] += tc["distinct"]
        crew_runs = {"runs": tc["lines"], "rejected": len(badc), **statsc}
    stats_all, judged, samples = {}, 0, []
    for name, judge, path in runs:
        jd = vlib.fresh_dir(pid, "judge_" + name)
        bad, stats, t = vlib.judge_cases(jd, "Trace_%s.tla" % judge, "Trace_%s.cfg" % judge, path)
        tot["generated"] += t["generated"]
        tot["distinct"] += t["distinct"]
        judged += t["lines"]
        for k, v in stats.items():
            stats_all[name + "." + k] = v
        for b in bad:
            labels = b.get(key, [])
            if labels:
                c = b["case"]
                rep.reject("%s: %s on %s" % (name, ",".join(labels), c.get("raw", "")[:400]), b.get("sigs", []),
                           {"property": pid, "labels": labels, "source": name, "case": {"kind": c.get("kind"), "raw": c.get("raw"), "out": c.get("out")}})
        with open(path) as f:
            for i, line in enumerate(f):
                if i in (0, 7) and len(samples) < 4:
                    c = json.loads(line)
                    o = c.get("out") or {"runA": c.get("runA"), "saveAt": c.get("saveAt"), "doc": c.get("doc"), "results": c.get("results")}
                    samples.append({"source": name, "inputs": (c.get("raw") or "")[:1500],
                                    "observed": {k: o[k] for k in o if k in ("outcome", "to", "consumed", "emitted", "cls", "stopped", "remaining", "runA", "saveAt", "doc", "results")}})
        log("  judged %s with Trace_%s: %d cases, %d rejected (all properties)" % (name, judge, t["lines"], len(bad)))
    rc = rep.finish()
    nontriv = sum(v for k, v in stats_all.items() if k.split(".")[1] in ("moved", "strides", "applies"))
    vlib.write_evidence(pid, tier, seed, {
        "states": max(1, tot["distinct"]), "transitions": max(1, tot["generated"]),
        "traces_validated_against_impl": judged, "samples": samples or [{"note": "none"}],
        "evaluations": judged, "distinct_nontrivial": nontriv,
        "rule": "seeded generation of (spec, state, message(s), control) over the action language; every call of the real Spec.Step/Spec.Walk "
                "is recorded and judged by TLC against StepOutcomes / the walk predicates; non-trivial = steps that moved / strides taken",
        "judge_stats": stats_all, "exhaustive": bool(exhaustive),
        "exhaustive_scope": "MC_Step universe (node shapes with <=1 branch in quick; <=2 branches, every 4th case exported, in thorough) enumerated by TLC and every exported case driven; generated cases are a seeded sample" if pid in ("C04", "C08", "C18") else ("MC_Walk: all 14,700 configurations (7x7 node shapes, message sequences <=3, limits 0..4, breakpoint on/off, 2 start bindings) explored by TLC and walked by the real engine in every split; generated walks are a seeded sample" if pid == "C05" else "seeded sample"),
        "known_findings_hit": {k: v["count"] for k, v in rep.known.items()},
        "collections_scripts": collections, "crew_runs": crew_runs,
    }, ASSUME[pid], time.time() - t0, len(rep.violations))
    return rc
