"""Shared machinery of the /verif checks (python3, standard library only).

Pipeline (DESIGN.md section 3.2):  enumerate (TLC) -> drive (Go, real code)
-> record (ndjson) -> judge (TLC trace spec).  Go drives and records; TLA+ judges.
Exit codes: 0 held, 1 violation (with VIOLATION line), 2 could not run.
"""
import concurrent.futures as cf
import hashlib
import json
import os
import re
import shutil
import subprocess
import sys
import time

VERIF = os.path.dirname(os.path.dirname(os.path.abspath(__file__)))
REPO = os.environ.get("VERIF_REPO", "/repo")
WORK = os.environ.get("VERIF_WORK") or os.path.join(VERIF, ".work")
OUT = os.environ.get("VERIF_OUT") or VERIF   # evidence/ and replays/ live here (redirected for mutant runs)
SPEC = os.path.join(VERIF, "spec")
HARNESS = os.path.join(VERIF, "harness")
NCPU = os.cpu_count() or 4


class CannotRun(Exception):
    pass


def log(*a):
    print(*a, file=sys.stderr, flush=True)


def goenv():
    e = dict(os.environ)
    e.update(GOFLAGS="-mod=mod", GOPROXY="off", GOSUMDB="off", GOTOOLCHAIN="local",
             CGO_ENABLED=e.get("CGO_ENABLED", "1"))
    return e


def fresh_dir(*parts):
    d = os.path.join(WORK, *parts)
    if os.path.isdir(d):
        shutil.rmtree(d, ignore_errors=True)
    os.makedirs(d, exist_ok=True)
    return d


def run(cmd, cwd=None, env=None, timeout=None, check=True, capture=True):
    try:
        p = subprocess.run(cmd, cwd=cwd, env=env, timeout=timeout,
                           stdout=subprocess.PIPE if capture else None,
                           stderr=subprocess.STDOUT if capture else None, text=True)
    except subprocess.TimeoutExpired as ex:
        raise CannotRun("timeout after %ss: %s" % (timeout, " ".join(map(str, cmd))[:200]))
    if check and p.returncode != 0:
        raise CannotRun("command failed (%d): %s\n%s" % (p.returncode, " ".join(map(str, cmd))[:300], (p.stdout or "")[-3000:]))
    return p


def prepare_harness():
    """harness module always compiles /repo's current working tree (replace => /repo)."""
    gomod = os.path.join(HARNESS, "go.mod")
    want = open(gomod).read()
    if REPO != "/repo":
        want = re.sub(r"=> \S+", "=> " + REPO, want)
        hd = os.path.join(WORK, "harness_" + hashlib.md5(REPO.encode()).hexdigest()[:8])
        if os.path.isdir(hd):
            shutil.rmtree(hd)
        shutil.copytree(HARNESS, hd)
        open(os.path.join(hd, "go.mod"), "w").write(want)
    else:
        hd = HARNESS
    shutil.copyfile(os.path.join(REPO, "go.sum"), os.path.join(hd, "go.sum"))
    return hd


def build_driver(name, workdir, race=False, tags="verif"):
    hd = prepare_harness()
    out = os.path.join(workdir, name + ("_race" if race else ""))
    cmd = ["go", "build", "-tags", tags, "-o", out]
    if race:
        cmd.append("-race")
    cmd.append("./cmd/" + name)
    run(cmd, cwd=hd, env=goenv(), timeout=900)
    return out


def build_overlay_test(workdir, pkg, files, race=False, tags="verif"):
    """Compile test files kept under /verif INTO a package of the repository (package main hosts
    cannot be imported) with `go test -c -overlay`; /repo itself is not touched."""
    repl = {}
    for f in files:
        repl[os.path.join(REPO, pkg, "zz_verif_" + os.path.basename(f))] = os.path.abspath(f)
    tag = pkg.replace("/", "_")
    ov = os.path.join(workdir, "overlay_%s.json" % tag)
    json.dump({"Replace": repl}, open(ov, "w"))
    out = os.path.join(workdir, "overlay_test_" + tag + ("_race" if race else ""))
    cmd = ["go", "test", "-c", "-vet=off", "-tags", tags, "-overlay", ov, "-o", out]
    if race:
        cmd.append("-race")
    cmd.append("./" + pkg)
    run(cmd, cwd=REPO, env=goenv(), timeout=900)
    return out


_TLC_NOISE = re.compile(r"^(Semantic processing|Parsing file|Linting of|\*\*\*\*\*\* SANY|Warning: Treating|CONSTANT declarations|and their level)")


def tlc(workdir, module, cfg, workers=1, timeout=1800, extra=(), javaopts=None, heap=None, simulate=None):
    """Run TLC in workdir (spec files are copied there).  Returns dict with the
    end-of-run statistics; raises CannotRun on anything but a clean finish."""
    for f in os.listdir(SPEC):
        if f.endswith(".tla") or f.endswith(".cfg"):
            shutil.copyfile(os.path.join(SPEC, f), os.path.join(workdir, f))
    env = dict(os.environ)
    jo = []
    if heap:
        jo.append("-Xmx%s" % heap)
    jo.append("-Xss64m")
    jtmp = os.path.join(workdir, "jtmp")
    os.makedirs(jtmp, exist_ok=True)
    jo.append("-Djava.io.tmpdir=" + jtmp)   # SANY unpacks the standard modules into the temp dir on every run
    if javaopts:
        jo += list(javaopts)
    env["JAVA_TOOL_OPTIONS"] = " ".join(jo)
    meta = os.path.join(workdir, "meta_" + os.path.splitext(cfg)[0])
    cmd = ["timeout", str(timeout), "tlc", "-workers", str(workers), "-metadir", meta, "-config", cfg]
    if simulate:
        cmd += ["-simulate", simulate]
    cmd += list(extra) + [module]
    t0 = time.time()
    p = subprocess.run(cmd, cwd=workdir, env=env, stdout=subprocess.PIPE, stderr=subprocess.STDOUT, text=True)
    out = "\n".join(l for l in p.stdout.splitlines() if not _TLC_NOISE.match(l))
    res = {"rc": p.returncode, "out": out, "wall": time.time() - t0, "generated": 0, "distinct": 0}
    m = re.search(r"(\d[\d,]*) states generated, (\d[\d,]*) distinct states found", out)
    if m:
        res["generated"] = int(m.group(1).replace(",", ""))
        res["distinct"] = int(m.group(2).replace(",", ""))
    res["ok"] = p.returncode == 0 and "No error has been found" in out or (simulate and p.returncode == 0)
    shutil.rmtree(meta, ignore_errors=True)
    return res


def tlc_ok(*a, **kw):
    r = tlc(*a, **kw)
    if not r["ok"]:
        raise CannotRun("TLC did not finish cleanly (rc=%s):\n%s" % (r["rc"], r["out"][-4000:]))
    return r


def read_ndjson(path):
    out = []
    if not os.path.exists(path):
        return out
    with open(path) as f:
        for line in f:
            line = line.strip()
            if line:
                out.append(json.loads(line))
    return out


def split_lines(path, n, outdir, name="cases.ndjson"):
    """Split an ndjson file into n shards (round robin); returns list of shard dirs and line maps."""
    lines = open(path).read().splitlines()
    n = max(1, min(n, (len(lines) + 199) // 200))
    shards = []
    for i in range(n):
        d = os.path.join(outdir, "shard%02d" % i)
        os.makedirs(d, exist_ok=True)
        part = lines[i::n]
        with open(os.path.join(d, name), "w") as f:
            f.write("\n".join(part) + ("\n" if part else ""))
        shards.append((d, part))
    return shards, len(lines)


def judge_cases(workdir, module, cfg, cases_path, parallel=NCPU, timeout=3000, heap="3g", extra_files=()):
    """Run a line-by-line trace judge (Trace_*.tla) over cases_path, sharded.
    Returns (bad records with the original case attached, summed stats, tlc totals)."""
    shards, total = split_lines(cases_path, parallel, workdir)
    results = []

    def one(sh):
        d, part = sh
        if not part:
            return d, part, None
        for f in extra_files:
            shutil.copyfile(f, os.path.join(d, os.path.basename(f)))
        r = tlc(d, module, cfg, workers=1, timeout=timeout, heap=heap)
        return d, part, r

    with cf.ThreadPoolExecutor(max_workers=parallel) as ex:
        results = list(ex.map(one, shards))
    bad, stats, gen, dist = [], {}, 0, 0
    for d, part, r in results:
        if r is None:
            continue
        if not r["ok"]:
            raise CannotRun("judge %s failed in %s:\n%s" % (module, d, r["out"][-4000:]))
        gen += r["generated"]
        dist += r["distinct"]
        for b in read_ndjson(os.path.join(d, "judge_bad.ndjson")):
            b["case"] = json.loads(part[b["line"] - 1])
            bad.append(b)
        for s in read_ndjson(os.path.join(d, "judge_stats.ndjson")):
            if s.get("lines") != len(part):
                raise CannotRun("judge consumed %s of %s lines in %s" % (s.get("lines"), len(part), d))
            for k, v in s["stats"].items():
                stats[k] = stats.get(k, 0) + v
    return bad, stats, {"generated": gen, "distinct": dist, "lines": total}


# ---------------------------------------------------------------- findings, replays, evidence

def load_findings():
    p = os.path.join(VERIF, "known_findings.json")
    if not os.path.exists(p):
        return []
    return json.load(open(p)).get("findings", [])


def write_replay(pid, payload):
    d = os.path.join(OUT, "replays", pid)
    os.makedirs(d, exist_ok=True)
    js = json.dumps(payload, sort_keys=True)
    h = hashlib.sha1(js.encode()).hexdigest()[:12]
    path = os.path.join(d, h + ".json")
    with open(path, "w") as f:
        f.write(js)
    return path


class Report:
    """Collects rejected cases, sorts them into known findings and violations."""

    def __init__(self, pid):
        self.pid = pid
        self.violations = []
        self.known = {}
        self.findings = [f for f in load_findings() if f.get("property") == pid and f.get("status") == "open"]

    def reject(self, what, sigs, payload):
        """what: short text; sigs: signature names the judge found true for the case."""
        for f in self.findings:
            if f["signature"] in sigs:
                self.known.setdefault(f["id"], {"finding": f, "count": 0, "example": payload})
                self.known[f["id"]]["count"] += 1
                return
        self.violations.append((what, payload))

    def finish(self, max_print=5):
        for fid, k in sorted(self.known.items()):
            print("KNOWN-FINDING: property=%s %s [%s; %d case(s) this run]" % (self.pid, k["finding"]["what"], fid, k["count"]))
        seen = 0
        for what, payload in self.violations:
            if seen >= max_print:
                break
            path = write_replay(self.pid, payload)
            print("VIOLATION property=%s replay=%s" % (self.pid, path))
            log("  ", what)
            seen += 1
        if len(self.violations) > seen:
            log("  ... and %d more rejected case(s)" % (len(self.violations) - seen))
        sys.stdout.flush()
        return 1 if self.violations else 0


def write_evidence(pid, tier, seed, coverage, assumptions, wall, violations, level="model_checking"):
    os.makedirs(os.path.join(OUT, "evidence"), exist_ok=True)
    ev = {"property_id": pid, "tier": tier, "seed": int(seed), "level": level, "coverage": coverage,
          "assumptions": assumptions, "wall_s": round(wall, 2), "violations": int(violations)}
    with open(os.path.join(OUT, "evidence", pid + ".json"), "w") as f:
        json.dump(ev, f, indent=1, sort_keys=True)
        f.write("\n")


def sample(xs, n=3):
    if len(xs) <= n:
        return list(xs)
    step = max(1, len(xs) // n)
    return [xs[i] for i in range(0, len(xs), step)][:n]
