"""C17: timers fire at most once, never early, never after cancel; ids reusable; pending set truthful.
spec/Timers.tla (implementation-shaped, TLC explores all interleavings and exports gate schedules),
spec/TimersProp.tla + spec/Trace_Timers.tla (property-level lifecycle, linearizability judge).
mcrew's Timers are driven by an overlay driver inside cmd/mcrew (gates at the verif hooks, requests
from inside the firing handler, free-running stress); sio's through a real crew's timers machine."""
import concurrent.futures as cf
import json
import os
import time

import vlib
from vlib import log
from service_checks import drive, DRIVER

ASSUME = [
    "every make request carries a token, so a firing identifies the timer instance",
    "short delay 30 ms, long delay 1 h ('never within the run'); the final snapshot is taken >= 100 ms after the last request, so every short timer must have fired by then",
    "Go's select cannot be gated: schedules that need a particular choice between 'due' and 'cancelled' are repeated; a schedule step not reached within 150 ms is unrealisable on this build (counted; the trace is judged anyway)",
    "firing is observed at the start of the emitter callback; TLC places the instant at which the timer stops being pending (FireLin) before it",
    "never-early is checked against the time of the make request's call plus the delay (ms, one monotonic clock)",
]


def _shards(binary, wd, lines, nsh, prefix, **env):
    def one(i):
        part = lines[i::nsh]
        if not part:
            return None
        inp = os.path.join(wd, "%s_in_%02d.ndjson" % (prefix, i))
        open(inp, "w").write("\n".join(part) + "\n")
        o = os.path.join(wd, "%s_out_%02d.ndjson" % (prefix, i))
        drive(binary, wd, "timers", o, VERIF_TIMERS="sched", VERIF_IN=inp, **env)
        return o
    with cf.ThreadPoolExecutor(max_workers=nsh) as ex:
        outs = [o for o in ex.map(one, range(nsh)) if o]
    out = os.path.join(wd, prefix + "_traces.ndjson")
    with open(out, "w") as f:
        k = 0
        for o in outs:
            for line in open(o):
                k += 1
                c = json.loads(line)
                c["id"] = k
                f.write(json.dumps(c) + "\n")
    return out


def run(pid, tier, seed, replay):
    t0 = time.time()
    wd = vlib.fresh_dir(pid)
    files = [os.path.join(vlib.VERIF, f) for f in DRIVER]
    binary = vlib.build_overlay_test(wd, "cmd/mcrew", files)
    rep = vlib.Report(pid)
    gen = dist = 0
    if replay and json.load(open(replay)).get("kind") == "mcrew-system":
        import system_checks
        system_checks.mcrew_stage(pid, tier, seed, wd, rep, binary, acts=json.load(open(replay))["acts"])
        return rep.finish()
    if replay:
        raise vlib.CannotRun("replay of C17 histories: re-run the schedule in the replay file with VERIF_MODE=timers VERIF_TIMERS=sched")
    # (a) the model: every interleaving of requests and timer goroutines, both shapes
    d = vlib.fresh_dir(pid, "mc_early")
    r = vlib.tlc_ok(d, "MC_Timers.tla", "MC_Timers_early.cfg", workers=4, timeout=1800, heap="4g")
    gen += r["generated"]
    dist += r["distinct"]
    log("  Timers.tla (shape mirroring the code): %d distinct states, CancelledNeverFires/AtMostOnce/PendingSet/IdFree hold" % r["distinct"])
    # the same model as an inductive invariant (Apalache): the C17 invariants hold for any number of steps
    d = vlib.fresh_dir(pid, "mc_ind")
    r2 = vlib.tlc_ok(d, "TimersInd.tla", "TimersInd.cfg", workers=4, timeout=1800, heap="4g")
    gen += r2["generated"]
    dist += r2["distinct"]
    if r2["distinct"] != r["distinct"]:
        raise vlib.CannotRun("TimersInd.tla (%d states) has drifted from Timers.tla, shape early (%d states)" % (r2["distinct"], r["distinct"]))
    apal = "skipped"
    import shutil as _sh
    if _sh.which("apalache-mc"):
        ok = True
        for init, length in (("IndInit", "1"), ("Init", "0")):
            p = vlib.run(["timeout", "600", "apalache-mc", "check", "--init=" + init, "--inv=IndInv", "--length=" + length, "--out-dir=" + os.path.join(d, "apalache-out"), "TimersInd.tla"],
                         cwd=d, timeout=700, check=False)
            if "The outcome is: NoError" not in p.stdout:
                ok = False
                log("  Apalache (%s, length %s) did not confirm the inductive invariant:\n%s" % (init, length, p.stdout[-800:]))
        apal = "inductive invariant confirmed (IndInit/length 1 and Init/length 0)" if ok else "not confirmed"
        if not ok:
            raise vlib.CannotRun("Apalache did not confirm IndInv of TimersInd.tla")
    log("  TimersInd.tla: same %d states under TLC; Apalache: %s" % (r2["distinct"], apal))
    scheds = set()
    for cfg in ("MC_Timers_late_export.cfg", "MC_Timers_early_export.cfg"):
        d = vlib.fresh_dir(pid, "mc_" + cfg[:-4])
        r = vlib.tlc_ok(d, "MC_Timers.tla", cfg, workers=1, timeout=1800, heap="4g")
        gen += r["generated"]
        dist += r["distinct"]
        scheds.update(open(os.path.join(d, "schedules.ndjson")).read().splitlines())
    scheds = sorted(scheds)
    log("  %d gate schedules exported" % len(scheds))
    runs = []
    runs.append(("schedules", _shards(binary, wd, scheds, 16, "sched", VERIF_REPS=2 if tier == "quick" else 6)))
    for mode, nq, nt in (("handler", 60, 600), ("stress", 40, 400)):
        # run a few driver processes in parallel (each history takes ~150-300 ms of real time)
        def one(i, mode=mode, nq=nq, nt=nt):
            o = os.path.join(wd, "%s_%02d.ndjson" % (mode, i))
            drive(binary, wd, "timers", o, VERIF_TIMERS=mode, VERIF_SEED=seed * 100 + i, VERIF_N=(nq if tier == "quick" else nt) // 8)
            return o
        with cf.ThreadPoolExecutor(max_workers=8) as ex:
            outs = list(ex.map(one, range(8)))
        out = os.path.join(wd, mode + "_traces.ndjson")
        with open(out, "w") as f:
            k = 0
            for o in outs:
                for line in open(o):
                    k += 1
                    c = json.loads(line)
                    c["id"] = k
                    f.write(json.dumps(c) + "\n")
        runs.append((mode, out))
    if True:
        rbin = vlib.build_overlay_test(wd, "cmd/mcrew", files, race=True)
        out = os.path.join(wd, "race_stress.ndjson")
        txt = drive(rbin, wd, "timers", out, VERIF_TIMERS="stress", VERIF_SEED=seed + 7, VERIF_N=20 if tier == "quick" else 60, GORACE="halt_on_error=0")
        if "WARNING: DATA RACE" in txt:
            rep.reject("data race reported by the race detector (mcrew timers stress)", [], {"property": pid, "race": txt[-4000:]})
        runs.append(("stress-race", out))
    # (b) the single-loop crew's timers (sio), through a real crew's timers machine
    sdrv = vlib.build_driver("siotimerdrv", wd)
    sin = os.path.join(wd, "sio_sched_in.ndjson")
    import random
    pick = scheds if tier == "thorough" else random.Random(seed).sample(scheds, min(240, len(scheds)))

    def sshard(i):
        part = pick[i::16]
        if not part:
            return None
        inp = os.path.join(wd, "sio_in_%02d.ndjson" % i)
        open(inp, "w").write("\n".join(part) + "\n")
        o = os.path.join(wd, "sio_out_%02d.ndjson" % i)
        vlib.run([sdrv, "sched", inp, o, "2" if tier == "quick" else "4"], timeout=6000)
        return o
    with cf.ThreadPoolExecutor(max_workers=16) as ex:
        souts = [o for o in ex.map(sshard, range(16)) if o]
    for mode, nq, nt in (("stress", 40, 400), ("restart", 40, 400), ("writeback", 24, 240), ("lockheld", 40, 400)):
        def sone(i, mode=mode, nq=nq, nt=nt):
            o = os.path.join(wd, "sio_%s_%02d.ndjson" % (mode, i))
            p = vlib.run([sdrv, mode, str((nq if tier == "quick" else nt) // 8), str(seed * 100 + i), o], timeout=6000, check=False)
            if p.returncode != 0:
                # a driver process that dies inside the crew ("Timer activity never corrupts crew state") is a violation
                died = [l.strip() for l in p.stdout.splitlines() if "fatal error:" in l or "panic:" in l][:3]
                if not died:
                    raise vlib.CannotRun("sio timers driver failed (%d): %s" % (p.returncode, p.stdout[-1500:]))
                with open(o, "w") as f:
                    f.write(json.dumps({"id": 1, "kind": "race-log", "impl": "sio", "events": [{"ev": "race", "sig": "process-died", "frames": died, "seq": 1, "t": 0}],
                                        "realised": True, "outcome": "returned", "raw": json.dumps({"mode": mode, "died": died}), "short": 30, "long": 3600000}) + "\n")
            return o
        with cf.ThreadPoolExecutor(max_workers=8) as ex:
            souts += list(ex.map(sone, range(8)))
    out = os.path.join(wd, "sio_traces.ndjson")
    with open(out, "w") as f:
        k = 0
        for o in souts:
            for line in open(o):
                k += 1
                c = json.loads(line)
                c["id"] = k
                f.write(json.dumps(c) + "\n")
    runs.append(("sio", out))
    # race detector as a sensor: sio timers together with the crew loop (free-running requests; the timers machine's state
    # written back through the captain while timers are pending)
    srace = vlib.build_driver("siotimerdrv", wd, race=True)
    e = dict(os.environ, GORACE="halt_on_error=0")
    evs = []
    for mode, nq, nt in (("stress", 12, 60), ("writeback", 12, 60)):
        o = os.path.join(wd, "sio_race_%s.ndjson" % mode)
        p = vlib.run([srace, mode, str(nq if tier == "quick" else nt), str(seed + 3), o], env=e, timeout=3000, check=False)
        reports = [r for r in p.stdout.split("==================") if "WARNING: DATA RACE" in r]
        for r in reports:
            mine = "sio-timer-goroutine-vs-crew-loop" if "sio.(*TimerEntry).run" in r else "other"
            frames = sorted(set(l.strip().split("(")[0] for l in r.splitlines() if "github.com/Comcast/sheens" in l and l.startswith("  ")))
            evs.append({"ev": "race", "sig": mine, "frames": frames[:8], "seq": len(evs) + 1, "t": 0})
        if not reports and p.returncode != 0:
            if "fatal error:" in p.stdout or "panic:" in p.stdout:
                evs.append({"ev": "race", "sig": "process-died", "frames": [l.strip() for l in p.stdout.splitlines() if "fatal error:" in l or "panic:" in l][:3], "seq": len(evs) + 1, "t": 0})
            else:
                raise vlib.CannotRun("race build of the sio timers driver failed (%d): %s" % (p.returncode, p.stdout[-1500:]))
    if evs:
        rp = os.path.join(wd, "sio_race_log.ndjson")
        open(rp, "w").write(json.dumps({"id": 1, "kind": "race-log", "impl": "sio", "events": evs, "realised": True, "outcome": "returned",
                                        "raw": json.dumps({"race_reports": len(evs)}), "short": 30, "long": 3600000}) + "\n")
        runs.append(("sio-race", rp))
    log("  race detector (sio timers + crew loop): %d report(s)" % len(evs))
    judged, stats_all, samples = 0, {}, []
    for name, path in runs:
        jd = vlib.fresh_dir(pid, "judge_" + name)
        bad, stats, t = vlib.judge_cases(jd, "Trace_Timers.tla", "Trace_Timers.cfg", path)
        gen += t["generated"]
        dist += t["distinct"]
        judged += t["lines"]
        for k, v in stats.items():
            stats_all[name + "." + k] = v
        for b in bad:
            c = b["case"]
            rep.reject("%s: %s: history rejected at event %s: %s" % (name, ",".join(sorted(b["c17"])), b.get("stuckAt"), c["raw"][:300]), b.get("sigs", []),
                       {"property": pid, "labels": sorted(b["c17"]), "impl": c.get("impl"), "source": name, "stuckAt": b.get("stuckAt"), "case": c})
        with open(path) as f:
            c = json.loads(f.readline())
            samples.append({"source": name, "impl": c.get("impl"), "events": c["events"][:10]})
        log("  judged %s: %d histories, %d rejected; %s" % (name, t["lines"], len(bad), stats))
    # the mcrew host as one state machine: its timers service as the service wires it (NewService's emitter, requests that
    # machines emit from the handler of a firing message, a failing store) - the stage C16 runs, here for the timers
    if not replay:
        import system_checks
        si = system_checks.mcrew_stage(pid, tier, seed, wd, rep, binary)
        gen += si["generated"]
        dist += si["distinct"]
        judged += si["lines"]
        stats_all.update(si["stats"])
    rc = rep.finish()
    vlib.write_evidence(pid, tier, seed, {
        "states": max(1, dist), "transitions": max(1, gen), "traces_validated_against_impl": judged, "samples": samples,
        "evaluations": judged, "distinct_nontrivial": sum(v for k, v in stats_all.items() if k.endswith(".firings")),
        "rule": "gate schedules = complete behaviours (<= 9 steps) of Timers.tla over one id and two timer generations, both shapes; handler scenarios issue requests from inside the firing handler; "
                "stress = seeded free-running requests over two ids; non-trivial = firings observed",
        "judge_stats": stats_all, "exhaustive": False, "apalache": apal,
        "unrealisable_schedules": stats_all.get("schedules.histories", 0) - stats_all.get("schedules.realised", 0),
        "known_findings_hit": {k: v["count"] for k, v in rep.known.items()},
    }, ASSUME, time.time() - t0, len(rep.violations))
    return rc
