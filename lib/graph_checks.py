"""C20: analysis and graph renderings are faithful.  spec/SpecGraph.tla defines the facts of a
spec graph and what a faithful rendering contains; MC_Graph enumerates all small graphs and
exports them; graphdrv builds real compiled specs, runs tools.Analyze/Dot/Mermaid under a panic
trap and parses the renderings back; Trace_Graph judges."""
import json
import os
import random
import time

import vlib
from vlib import log

ASSUME = [
    "renderings parsed by a strict parser of the subset of Graphviz/Mermaid syntax the tools emit; a statement outside it is 'malformed'",
    "structural fidelity judged for node names that are plain identifiers and graphs without empty branch targets; other names/targets are judged for totality (no crash, no error) only",
    "one extra endpoint statement per missing or variable target is allowed in a rendering",
    "whether an empty target also counts as a missing target, and the 'default' placeholder for 'no interpreter', are left open",
    "Compile adds an empty error node; the judged graph includes it",
]


def run(pid, tier, seed, replay):
    t0 = time.time()
    wd = vlib.fresh_dir(pid)
    drv = vlib.build_driver("graphdrv", wd)
    rep = vlib.Report(pid)
    gen = dist = 0
    files = []
    exhaustive = False
    if replay:
        out = os.path.join(wd, "replay.ndjson")
        vlib.run([drv, "replay", replay, out])
        files.append(("replay", out))
    else:
        d = vlib.fresh_dir(pid, "mc")
        r = vlib.tlc_ok(d, "MC_Graph.tla", "MC_Graph.cfg", workers=1, timeout=3000, heap="8g")
        gen, dist = r["generated"], r["distinct"]
        lines = open(os.path.join(d, "export.ndjson")).read().splitlines()
        log("  MC_Graph: %d graphs enumerated (%.0fs)" % (len(lines), r["wall"]))
        if tier == "quick":
            lines = random.Random(seed).sample(lines, 12000)
        else:
            exhaustive = True
        src = os.path.join(wd, "graphs.ndjson")
        open(src, "w").write("\n".join(lines) + "\n")
        out = os.path.join(wd, "univ.ndjson")
        vlib.run([drv, "univ", src, out], timeout=3000)
        files.append(("univ", out))
        out = os.path.join(wd, "gen.ndjson")
        vlib.run([drv, "gen", str(4000 if tier == "quick" else 80000), str(seed), out], timeout=3000)
        files.append(("gen", out))
    judged, stats_all, samples = 0, {}, []
    for name, path in files:
        jd = vlib.fresh_dir(pid, "judge_" + name)
        bad, stats, t = vlib.judge_cases(jd, "Trace_Graph.tla", "Trace_Graph.cfg", path)
        gen += t["generated"]
        dist += t["distinct"]
        judged += t["lines"]
        for k, v in stats.items():
            stats_all[k] = stats_all.get(k, 0) + v
        for b in bad:
            c = b["case"]
            rep.reject("%s: %s on %s" % (name, ",".join(b["c20"]), c["raw"][:400]), b.get("sigs", []),
                       {"property": pid, "labels": b["c20"], "case": {"raw": c["raw"], "plainNames": c["plainNames"], "dot": c["dot"], "dotOutcome": c["dotOutcome"], "dotErr": c["dotErr"][:200], "analysis": c["analysis"]}})
        with open(path) as f:
            for i, line in enumerate(f):
                if i in (5, 500) and len(samples) < 3:
                    c = json.loads(line)
                    samples.append({"graph": c["g"], "analysis": c["analysis"], "dot": c["dot"], "mermaid": c["mermaid"]})
        log("  judged %s: %d graphs, %d rejected" % (name, t["lines"], len(bad)))
    rc = rep.finish()
    vlib.write_evidence(pid, tier, seed, {
        "states": max(1, dist), "transitions": max(1, gen), "traces_validated_against_impl": judged,
        "samples": samples or [{"note": "none"}], "evaluations": judged, "distinct_nontrivial": stats_all.get("withBranches", 0),
        "rule": "graphs enumerated by TLC (MC_Graph: <=3 nodes) plus seeded larger graphs with unusual names/patterns; non-trivial = graphs with at least one branch",
        "judge_stats": stats_all, "exhaustive": exhaustive,
        "known_findings_hit": {k: v["count"] for k, v in rep.known.items()},
    }, ASSUME, time.time() - t0, len(rep.violations))
    return rc
