"""C13: a spec's behaviour is independent of its representation; compiling is idempotent; unknowns are rejected at
compile time.  spec/Loader.tla states that every rendering denotes the same abstract spec; loaderdrv renders, loads
(as the hosts do), compiles and walks; spec/Trace_Loader.tla judges.  The same driver feeds malformed documents to
the loaders (the document half of C07)."""
import json
import os
import time

import vlib
from vlib import log

ASSUME = [
    "renderings: Go structures, JSON, YAML (github.com/jsccast/yaml, as the hosts use), patterns as JSON text under patternSyntax json, compiled once / twice / forced, compiled-serialised-reloaded, sio.ResolveSpecSource inline / file:// JSON / file:// YAML",
    "behaviour = per message (delivered one at a time) the resulting state and emitted messages over three message sequences; error texts compared by presence",
    "mcrew-getspec: the YAML rendering is written to a spec directory and loaded by the real Service.GetSpec (driver compiled into cmd/mcrew by overlay), then walked over the same message sequences",
    "msimple-file-yaml: the same file given to the cmd/msimple binary (built from the tree under test) with -r=false -d; one process per message sequence, states read from its '# next' lines, emitted messages from its output; the host's loader is tools.ReadFileWithInlines + jsccast/yaml + interpreters.Standard(), its control core.DefaultControl (all renderings are walked with that limit)",
]


def run(pid, tier, seed, replay):
    t0 = time.time()
    wd = vlib.fresh_dir(pid)
    drv = vlib.build_driver("loaderdrv", wd)
    rep = vlib.Report(pid)
    out = os.path.join(wd, "load.ndjson")
    exp = os.path.join(wd, "getspec")
    os.makedirs(exp, exist_ok=True)
    vlib.run([drv, "gen", str(600 if tier == "quick" else 12000), str(seed), out], timeout=7000, env=dict(os.environ, LOADER_EXPORT=exp))
    # the same YAML documents through cmd/mcrew's Service.GetSpec (overlay driver inside cmd/mcrew)
    import subprocess
    import system_checks
    files = [os.path.join(vlib.VERIF, f) for f in system_checks.MCREW_DRIVER]
    binary = vlib.build_overlay_test(wd, "cmd/mcrew", files)
    gout = os.path.join(exp, "getspec_out.ndjson")
    p = subprocess.run([binary, "-test.run", "TestVerifSystem", "-test.timeout", "3000s"], cwd=exp, stdout=subprocess.PIPE, stderr=subprocess.STDOUT, text=True,
                       env=dict(os.environ, VERIF_SYS_MODE="getspec", VERIF_SYS_DIR=exp, VERIF_OUT_FILE=gout))
    if p.returncode != 0:
        raise vlib.CannotRun("mcrew getspec driver failed:\n" + p.stdout[-3000:])
    merged = os.path.join(wd, "load_merged.ndjson")
    vlib.run([drv, "merge", out, gout, merged], timeout=3000)
    out = merged
    # ... and through the single-machine host cmd/msimple (the binary built from the tree under test, one run per message sequence)
    msbin = os.path.join(wd, "msimple")
    vlib.run(["go", "build", "-o", msbin, "./cmd/msimple"], cwd=vlib.REPO, env=vlib.goenv(), timeout=900)
    mout = os.path.join(exp, "msimple_out.ndjson")
    vlib.run([drv, "msimple", msbin, exp, mout], timeout=7000, env=dict(os.environ, MSIMPLE_MAX="3000"))
    merged2 = os.path.join(wd, "load_merged2.ndjson")
    vlib.run([drv, "merge", out, mout, merged2, "msimple-file-yaml"], timeout=3000)
    out = merged2
    out2 = os.path.join(wd, "malformed.ndjson")
    vlib.run([drv, "malformed", str(150 if tier == "quick" else 2000), str(seed), out2], timeout=7000)
    allp = os.path.join(wd, "all.ndjson")
    open(allp, "w").write(open(out).read() + open(out2).read())
    jd = vlib.fresh_dir(pid, "judge")
    bad, stats, t = vlib.judge_cases(jd, "Trace_Loader.tla", "Trace_Loader.cfg", allp)
    for b in bad:
        labels = b.get("c13", []) + (b.get("c07", []) if pid == "C13" else [])
        if labels:
            c = b["case"]
            rep.reject("%s (differing renderings: %s) on %s" % (",".join(labels), ",".join(b.get("differing", [])), c["raw"][:400]), b.get("sigs", []),
                       {"property": pid, "labels": labels, "differing": b.get("differing"), "case": {"raw": c["raw"], "kind": c["kind"]}})
    log("  judged %d cases, %d rejected; %s" % (t["lines"], len(bad), stats))
    rc = rep.finish()
    c = json.loads(open(out).readline())
    vlib.write_evidence(pid, tier, seed, {
        "states": max(1, t["distinct"]), "transitions": max(1, t["generated"]), "traces_validated_against_impl": t["lines"],
        "samples": [{"unknown": c["unknown"], "renderings": [r["repr"] for r in c["reps"]], "reference_behaviour": c["reps"][0]["behaviours"][:1]}],
        "evaluations": stats.get("renderings", 0), "distinct_nontrivial": stats.get("specs", 0),
        "rule": "seeded abstract specs (3 nodes, patterns of every JSON shape incl. bare strings and bare variables, guards, actions, error settings), each in up to 19 renderings (Go structures, JSON, YAML, JSON-text patterns, compiled twice / forced / retried, serialised and reloaded, sio's loader inline / file JSON / file YAML, cmd/mcrew's GetSpec, the cmd/msimple binary); "
                "1 in 4 carries an unknown interpreter / branching type / pattern syntax; non-trivial = abstract specs compared",
        "judge_stats": stats, "exhaustive": False, "known_findings_hit": {k: v["count"] for k, v in rep.known.items()},
    }, ASSUME, time.time() - t0, len(rep.violations))
    return rc
