"""C01 (soundness), C02 (completeness), C03 (purity) of match.Match.

spec/Match.tla is the reference semantics, spec/MC_Match.tla the bounded universe
(enumerated completely by TLC, exported, fed to the real matcher), and
spec/Trace_Match.tla the judge of everything recorded from the real code."""
import json
import os
import time

import vlib
from vlib import log

LABEL_KEY = {"C01": "c01", "C02": "c02", "C03": "c03"}

ASSUME = {
    "C01": [
        "patterns restricted to the supported fragment (InFragment, re-checked in TLA+)",
        "no string inside the message or bound values begins with '?' (flag computed by the encoder; such cases are skipped)",
        "an inequality variable is judged as one only when it was given a numeric bound (IneqBound); others are outside the judged fragment",
        "weakest reading: an unmatched occurrence of an optional variable imposes no constraint",
        "numbers are multiples of 0.5 (encoded as a count of halves)",
    ],
    "C02": [
        "planted direction judged only when PlantedOK holds in TLA+ (fragment, arrays are sets, repeated variables scalar, array variable differs from constants, empty initial bindings)",
        "exactness judged only for ExactClass (plain variables, each once, none pre-bound, no duplicate array members)",
        "the reference matcher M is cross-checked by TLC against brute-force assignments on the whole bounded universe (RefExact)",
    ],
    "C03": [
        "map iteration orders are reached by permuted construction of every map plus repetition (12-40 evaluations per case) and 8 concurrent evaluations of one shared value",
        "'independent map' is checked at the top level of each returned bindings map (nested values are shared with the message by design)",
    ],
}


def _mc_export(pid, tier, wd):
    """Exhaustive TLC enumeration of the bounded universe + spec-level theorems + export."""
    levels = ["MC_Match_L1.cfg"] + (["MC_Match_L2.cfg"] if tier == "thorough" else [])
    exports, gen, dist = [], 0, 0
    for cfg in levels:
        d = vlib.fresh_dir(pid, "mc_" + cfg[:-4])
        r = vlib.tlc_ok(d, "MC_Match.tla", cfg, workers=1, timeout=3000, heap="8g")
        gen += r["generated"]
        dist += r["distinct"]
        exports.append(os.path.join(d, "export.ndjson"))
        log("  MC %s: %d cases enumerated, RefSound/RefExact hold (%.0fs)" % (cfg, r["distinct"], r["wall"]))
    return exports, gen, dist


def run(pid, tier, seed, replay):
    t0 = time.time()
    wd = vlib.fresh_dir(pid)
    drv = vlib.build_driver("matchdrv", wd)
    rep = vlib.Report(pid)
    key = LABEL_KEY[pid]
    cases_files = []
    mc_gen = mc_dist = 0
    exhaustive = False

    if replay:
        out = os.path.join(wd, "replay_cases.ndjson")
        vlib.run([drv, "replay", replay, out])
        cases_files.append(("replay", out))
    else:
        if pid in ("C01", "C02"):
            exports, mc_gen, mc_dist = _mc_export(pid, tier, wd)
            for i, e in enumerate(exports):
                out = os.path.join(wd, "univ%d.ndjson" % i)
                vlib.run([drv, "univ", e, out], timeout=3000)
                cases_files.append(("univ%d" % i, out))
            exhaustive = True
        n = {"C01": (6000, 120000), "C02": (6000, 120000), "C03": (1500, 20000)}[pid][0 if tier == "quick" else 1]
        mode = {"C01": "deep", "C02": "planted", "C03": "pure"}[pid]
        out = os.path.join(wd, mode + ".ndjson")
        p0 = vlib.run([drv, "gen", mode, str(n), str(seed), out], timeout=3000, check=False)
        if p0.returncode != 0 and pid == "C03" and ("fatal error:" in p0.stdout or "panic:" in p0.stdout):
            # matching brought the process down (concurrent use of one pattern value is part of what C03 quantifies over)
            rep.reject("the driver process died while matching (%s)" % mode, [],
                       {"property": pid, "labels": ["host-process-crashed"], "mode": mode, "seed": seed, "n": n, "output": p0.stdout[-3000:]})
        elif p0.returncode != 0:
            raise vlib.CannotRun("matchdrv failed (%s):\n%s" % (mode, p0.stdout[-3000:]))
        else:
            cases_files.append((mode, out))
        if pid == "C03":
            # the race detector as a sensor for writes to what a match is given (one pattern value, many goroutines, first use)
            rdrv = vlib.build_driver("matchdrv", wd, race=True)
            o2 = os.path.join(wd, "pure_race.ndjson")
            pr = vlib.run([rdrv, "gen", "pure", "150" if tier == "quick" else "1500", str(seed + 1), o2], env=dict(os.environ, GORACE="halt_on_error=0"), timeout=3000, check=False)
            if "WARNING: DATA RACE" in pr.stdout:
                rep.reject("data race reported while one pattern value is matched from many goroutines", [], {"property": pid, "race": pr.stdout[-3000:]})
            elif pr.returncode != 0 and ("fatal error:" in pr.stdout or "panic:" in pr.stdout):
                rep.reject("the race-build driver process died while matching", [], {"property": pid, "labels": ["host-process-crashed"], "output": pr.stdout[-3000:]})
            elif pr.returncode != 0:
                raise vlib.CannotRun("matchdrv (race build) failed:\n%s" % pr.stdout[-3000:])
        if pid == "C03":
            # deep and planted shapes as well, each evaluated repeatedly
            pass

    tot = {"generated": mc_gen, "distinct": mc_dist}
    stats_all, judged, samples = {}, 0, []
    for name, path in cases_files:
        jd = vlib.fresh_dir(pid, "judge_" + name)
        bad, stats, t = vlib.judge_cases(jd, "Trace_Match.tla", "Trace_Match.cfg", path)
        tot["generated"] += t["generated"]
        tot["distinct"] += t["distinct"]
        judged += t["lines"]
        for k, v in stats.items():
            stats_all[k] = stats_all.get(k, 0) + v
        for b in bad:
            labels = b.get(key, [])
            if labels:
                c = b["case"]
                rep.reject("%s: %s on %s" % (name, ",".join(labels), c.get("raw", "")[:300]), b.get("sigs", []),
                           {"property": pid, "labels": labels, "source": name, "case": c})
        with open(path) as f:
            for i, line in enumerate(f):
                if i in (0, 17, 101) and len(samples) < 4:
                    c = json.loads(line)
                    samples.append({"source": name, "inputs": c.get("raw"), "evals": c["evals"][:2]})
        log("  judged %s: %d cases, %d rejected (all properties)" % (name, t["lines"], len(bad)))

    rc = rep.finish()
    nontrivial = {"C01": stats_all.get("nontrivial", 0), "C02": stats_all.get("planted", 0) + stats_all.get("exact", 0),
                  "C03": stats_all.get("nontrivial", 0)}[pid]
    vlib.write_evidence(pid, tier, seed, {
        "states": max(1, tot["distinct"]), "transitions": max(1, tot["generated"]),
        "traces_validated_against_impl": judged,
        "samples": samples or [{"note": "no cases"}],
        "evaluations": judged,
        "distinct_nontrivial": nontrivial,
        "rule": "cases = TLC-enumerated bounded universe (MC_Match, every case exported and fed to match.Match) + seeded generated cases; "
                "non-trivial = the real matcher returned at least one binding set (C01/C03) / the case satisfied PlantedOK or ExactClass in TLA+ (C02)",
        "judge_stats": stats_all,
        "exhaustive": bool(exhaustive),
        "exhaustive_scope": "MC_Match universe level(s) enumerated completely; generated deep cases are a seeded sample" if exhaustive else "seeded sample",
        "known_findings_hit": {k: v["count"] for k, v in rep.known.items()},
    }, ASSUME[pid], time.time() - t0, len(rep.violations))
    return rc
