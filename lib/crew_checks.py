"""C14 (routing / emission accounting) and C15 (reported changes suffice; restart anywhere)
for the single-loop crew sio.Crew.  spec/CrewProp.tla holds the property-level predicates,
spec/Trace_Crew.tla judges histories recorded from the real crew (hook events, reported
emissions, live crew, shadow store, restarted crews)."""
import json
import os
import time

import vlib
from vlib import log

PLAN = {"C14": ("c14", "route", 1500, 40000), "C15": ("c15", "hist", 500, 12000)}
ASSUME = {
    "C14": ["presentations and dequeues observed through verif-tag hooks in sio/crew.go (RunMachine, ProcessMsg) and cross-checked against the recorder machines' own logs",
            "recorder machines (ECMAScript) append every message to bindings.log and emit bindings.table[id]",
            "a 'to' that is neither a string nor a list is treated as unrouted (weakest reading)",
            "mcrew host: recorder machines a, b, c with an acyclic emission graph; every Process invocation observed at the process-locked hook; quiescence = no invocation for 60 ms; cmd/mdb's Host.Process is driven by a second overlay driver (routing only: it does not re-process emissions)"],
    "C15": ["system stage: timers are requested with in=1ms and their goroutines are held at the verif hook timer-wait, so a timer fires exactly when the behaviour says; crash = the crew is dropped between two processing steps and a new one is booted from the store (records pass through JSON)",
            "shadow store = fold of Result.Changed exactly as sio.Stdio folds it; records pass through JSON before a crew is booted from them",
            "a store without a timers record denotes the timers machine's default state; a record without state denotes start/{}",
            "restart equivalence claimed for commuting crews (recorder machines commute); outputs compared as bags of batches per message"],
}


def run(pid, tier, seed, replay):
    t0 = time.time()
    wd = vlib.fresh_dir(pid)
    drv = vlib.build_driver("crewdrv", wd)
    rep = vlib.Report(pid)
    key, mode, nq, nt = PLAN[pid]
    out = os.path.join(wd, mode + ".ndjson")
    if replay and json.load(open(replay)).get("kind") == "mcrew-system":
        import system_checks
        files = [os.path.join(vlib.VERIF, f) for f in system_checks.MCREW_DRIVER]
        mbin = vlib.build_overlay_test(wd, "cmd/mcrew", files)
        system_checks.mcrew_stage(pid, tier, seed, wd, rep, mbin, acts=json.load(open(replay))["acts"])
        return rep.finish()
    if replay and json.load(open(replay)).get("kind") in ("system", "system-stdio"):
        import system_checks
        system_checks.replay(pid, wd, rep, json.load(open(replay)))
        return rep.finish()
    if replay:
        vlib.run([drv, "replay", replay, out], timeout=600)
    else:
        vlib.run([drv, "gen", mode, str(nq if tier == "quick" else nt), str(seed), out], timeout=6000)
        if pid == "C14":
            # ... and histories in which machines come and go between the messages (the crew's membership is not fixed)
            out_h = os.path.join(wd, "hist_for_c14.ndjson")
            vlib.run([drv, "gen", "hist", "250" if tier == "quick" else "4000", str(seed + 9), out_h], timeout=6000)
            with open(out, "a") as f:
                k = nq if tier == "quick" else nt
                for line in open(out_h):
                    k += 1
                    c = json.loads(line)
                    c["id"] = k
                    c["restarts"] = []
                    f.write(json.dumps(c) + "\n")
    mc_states = mc_gen = 0
    if pid == "C15" and not replay:
        # the implementation-shaped model of the change cache: all histories of <= 4 operations over two machine ids,
        # ShadowEqualsLive after every report; the pre-repair shape is a negative control that TLC must refute
        import concurrent.futures as cf
        import random
        for cfg, hold in (("MC_SioCrew_refines.cfg", True), ("MC_SioCrew_negctl.cfg", False)):
            d = vlib.fresh_dir(pid, "mc_" + cfg[:-4])
            r = vlib.tlc(d, "MC_SioCrew.tla", cfg, workers=8, timeout=1800, heap="6g")
            mc_states += r["distinct"]
            mc_gen += r["generated"]
            if hold != bool(r["ok"]):
                raise vlib.CannotRun("SioCrew.tla / %s: expected %s\n%s" % (cfg, "no error" if hold else "a refutation", r["out"][-1500:]))
        # ShadowEqualsLive for histories of ANY length: the typed copy SioCrewInd.tla has an inductive invariant that Apalache
        # discharges; MC_SioCrew_refines.cfg (above) has TLC check that every step of SioCrew.tla is a step of that copy
        import shutil as _sh
        apal = "skipped (apalache-mc not found)"
        if _sh.which("apalache-mc"):
            d = vlib.fresh_dir(pid, "apalache")
            _sh.copyfile(os.path.join(vlib.SPEC, "SioCrewInd.tla"), os.path.join(d, "SioCrewInd.tla"))
            for init, length in (("IndInit", "1"), ("Init", "0")):
                p = vlib.run(["timeout", "600", "apalache-mc", "check", "--init=" + init, "--inv=IndInv", "--length=" + length,
                              "--out-dir=" + os.path.join(d, "apalache-out"), "SioCrewInd.tla"], cwd=d, timeout=700, check=False)
                if "The outcome is: NoError" not in p.stdout:
                    raise vlib.CannotRun("Apalache did not confirm IndInv of SioCrewInd.tla (%s, length %s):\n%s" % (init, length, p.stdout[-1500:]))
            apal = "inductive invariant confirmed"
        log("  SioCrewInd.tla: every step of SioCrew.tla is a step of the typed copy (TLC); Apalache: %s" % apal)
        d = vlib.fresh_dir(pid, "mc_export")
        r = vlib.tlc_ok(d, "MC_SioCrew.tla", "MC_SioCrew_export3.cfg" if tier == "quick" else "MC_SioCrew_export.cfg", workers=1, timeout=3000, heap="8g")
        mc_states += r["distinct"]
        mc_gen += r["generated"]
        hl = open(os.path.join(d, "histories.ndjson")).read().splitlines()
        nall = len(hl)
        cap = 4000 if tier == "quick" else 40000
        if len(hl) > cap:
            hl = random.Random(seed).sample(hl, cap)
        log("  SioCrew.tla: ShadowEqualsLive holds on all histories <= 4 ops over 2 ids (negative control refuted); %d histories exported, %d replayed" % (nall, len(hl)))

        def hshard(i):
            part = hl[i::16]
            inp = os.path.join(wd, "hu_in_%02d.ndjson" % i)
            open(inp, "w").write("\n".join(part) + "\n")
            o = os.path.join(wd, "hu_out_%02d.ndjson" % i)
            vlib.run([drv, "univ", inp, o], timeout=6000)
            return o
        with cf.ThreadPoolExecutor(max_workers=16) as ex:
            houts = list(ex.map(hshard, range(16)))
        # append to the generated histories (ids renumbered)
        k = sum(1 for _ in open(out))
        with open(out, "a") as f:
            for o in houts:
                for line in open(o):
                    k += 1
                    c = json.loads(line)
                    c["id"] = k
                    f.write(json.dumps(c) + "\n")
    jd = vlib.fresh_dir(pid, "judge")
    bad, stats, t = vlib.judge_cases(jd, "Trace_Crew.tla", "Trace_Crew.cfg", out)
    t["distinct"] += mc_states
    t["generated"] += mc_gen
    for b in bad:
        if b.get(key):
            c = b["case"]
            rep.reject("%s on %s" % (",".join(b[key]), c["raw"][:400]), b.get("sigs", []),
                       {"property": pid, "labels": b[key], "case": {"kind": c["kind"], "raw": c["raw"]}})
    log("  judged %d histories (%s), %d rejected (all properties); stats %s" % (t["lines"], mode, len(bad), stats))
    extra_stats = {}
    if pid == "C14" and not replay:
        # the mcrew host: routing and asynchronous re-processing of emissions, observed at the service's hooks
        import service_checks
        files = [os.path.join(vlib.VERIF, f) for f in service_checks.DRIVER]
        binary = vlib.build_overlay_test(wd, "cmd/mcrew", files)
        mout = os.path.join(wd, "mcrew_route.ndjson")
        service_checks.drive(binary, wd, "svc-route", mout, VERIF_SEED=seed, VERIF_N=120 if tier == "quick" else 2500)
        # the debugger host (cmd/mdb): routing only (it does not re-process emissions by itself)
        mdbbin = vlib.build_overlay_test(os.path.join(wd), "cmd/mdb", [os.path.join(vlib.VERIF, "harness/mdb/driver_test.go")])
        mdbout = os.path.join(wd, "mdb_route.ndjson")
        import subprocess
        p = subprocess.run([mdbbin, "-test.run", "TestVerifDriver"], cwd=wd, env=dict(os.environ, VERIF_MODE="mdb-route", VERIF_OUT_FILE=mdbout,
                           VERIF_SEED=str(seed), VERIF_N=str(300 if tier == "quick" else 6000)), stdout=subprocess.PIPE, stderr=subprocess.STDOUT, text=True)
        if p.returncode != 0:
            raise vlib.CannotRun("mdb overlay driver failed:\n" + p.stdout[-2000:])
        open(mout, "a").write(open(mdbout).read())
        jd2 = vlib.fresh_dir(pid, "judge_mcrew")
        bad2, stats2, t2 = vlib.judge_cases(jd2, "Trace_McrewRoute.tla", "Trace_McrewRoute.cfg", mout)
        for b in bad2:
            c = b["case"]
            rep.reject("mcrew host: %s on %s" % (",".join(b["c14"]), c["raw"][:400]), b.get("sigs", []),
                       {"property": pid, "labels": b["c14"], "host": "mcrew", "case": c})
        log("  judged %d mcrew + mdb routing histories, %d rejected; %s" % (t2["lines"], len(bad2), stats2))
        extra_stats = {"mcrew." + k: v for k, v in stats2.items()}
        t["lines"] += t2["lines"]
        t["distinct"] += t2["distinct"]
        t["generated"] += t2["generated"]
    if pid == "C14" and not replay:
        # the composed model (Sheens.tla: crew routing + breadth-first re-injection + real step/walk/match semantics):
        # model-checked on a concrete crew and compared step by step with a real crew built from the same configuration
        sdrv = vlib.build_driver("sheensdrv", wd)
        d = vlib.fresh_dir(pid, "mc_sheens")
        vlib.run([sdrv, "config", os.path.join(d, "config.ndjson")])
        r = vlib.tlc_ok(d, "MC_Sheens.tla", "MC_Sheens.cfg", workers=4, timeout=1800, heap="4g")
        t["distinct"] += r["distinct"]
        t["generated"] += r["generated"]
        sout = os.path.join(wd, "sheens_runs.ndjson")
        vlib.run([sdrv, "run", str(400 if tier == "quick" else 8000), str(seed), sout], timeout=6000)
        jd3 = vlib.fresh_dir(pid, "judge_sheens")
        bad3, stats3, t3 = vlib.judge_cases(jd3, "Trace_Sheens.tla", "Trace_Sheens.cfg", sout)
        for b in bad3:
            c = b["case"]
            rep.reject("sio crew differs from the composed model at step(s) %s" % b.get("at"), b.get("sigs", []),
                       {"property": pid, "labels": sorted(b["sheens"]), "at": b.get("at"), "case": {"steps": c["steps"]}})
        log("  Sheens.tla: %d states, scenario invariants hold; %d runs of the real crew agree with the composed model (%d rejected)" % (r["distinct"], t3["lines"], len(bad3)))
        extra_stats.update({"sheens." + k: v for k, v in stats3.items()})
        t["lines"] += t3["lines"]
        t["distinct"] += t3["distinct"]
        t["generated"] += t3["generated"]
        # machines whose walk for one message emits and fails later (also at the error node): what they emitted before is
        # reported and fed back (the same runs as C08's crew stage, judged against the composed model)
        eout = os.path.join(wd, "emitcrew.ndjson")
        vlib.run([sdrv, "emitcrew", str(300 if tier == "quick" else 4000), str(seed + 5), eout], timeout=6000)
        jd5 = vlib.fresh_dir(pid, "judge_emitcrew")
        bad5, stats5, t5 = vlib.judge_cases(jd5, "Trace_Sheens.tla", "Trace_Sheens.cfg", eout)
        for b in bad5:
            c = b["case"]
            rep.reject("emitcrew: the crew's reported emissions or states differ from the composed model at input(s) %s on %s" % (b.get("at"), c["raw"][:300]), b.get("sigs", []),
                       {"property": pid, "labels": sorted(b["sheens"]), "at": b.get("at"), "case": {"raw": c["raw"], "steps": c["steps"]}})
        log("  emitcrew: %d runs of crews whose machines emit and fail, %d rejected" % (t5["lines"], len(bad5)))
        t["lines"] += t5["lines"]
        t["distinct"] += t5["distinct"]
        t["generated"] += t5["generated"]
        # Beyond the property (C14 speaks of the two crew hosts): the single-machine host cmd/msimple, which gives emitted
        # messages back to its machine depth first (MsimpleOps.tla on top of the same step/walk/match model).  MC_Msimple.tla is
        # model-checked on a concrete machine and runs of the real binary (built from the tree under test) are judged against
        # it; a difference is reported as a NOTE and in the evidence, not as a violation of C14.
        d = vlib.fresh_dir(pid, "mc_msimple")
        vlib.run([sdrv, "msimple-config", os.path.join(d, "msimple_config.ndjson")])
        r = vlib.tlc_ok(d, "MC_Msimple.tla", "MC_Msimple.cfg", workers=2, timeout=1800, heap="2g")
        t["distinct"] += r["distinct"]
        t["generated"] += r["generated"]
        msbin = os.path.join(wd, "msimple")
        vlib.run(["go", "build", "-o", msbin, "./cmd/msimple"], cwd=vlib.REPO, env=vlib.goenv(), timeout=900)
        mout = os.path.join(wd, "msimple_runs.ndjson")
        vlib.run([sdrv, "msimple-run", msbin, str(150 if tier == "quick" else 1500), str(seed), mout], timeout=6000)
        jd4 = vlib.fresh_dir(pid, "judge_msimple")
        bad4, stats4, t4 = vlib.judge_cases(jd4, "Trace_Msimple.tla", "Trace_Msimple.cfg", mout)
        for b in bad4[:3]:
            log("  NOTE (beyond the properties) cmd/msimple: %s at input(s) %s of run %s" % (",".join(sorted(b["msimple"])), b.get("at"), b["case"]["raw"][:300]))
        log("  Msimple.tla: %d states, scenario invariants hold (pre-order printing, the latch holds the last set in printing order); %d runs of the real cmd/msimple binary judged, %d differ from the composed model" % (r["distinct"], t4["lines"], len(bad4)))
        extra_stats.update({"msimple." + k: v for k, v in stats4.items()})
        extra_stats["msimple.differing_runs"] = len(bad4)
        # the mcrew host as one state machine (asynchronous re-processing of every emitted message, also when the store fails
        # for some of them): the stage of C16, here for "fed back to the crew, each processed exactly once"
        import system_checks
        files = [os.path.join(vlib.VERIF, f) for f in system_checks.MCREW_DRIVER]
        mbin = vlib.build_overlay_test(wd, "cmd/mcrew", files)
        si = system_checks.mcrew_stage(pid, tier, seed, wd, rep, mbin)
        t["lines"] += si["lines"]
        t["distinct"] += si["distinct"]
        t["generated"] += si["generated"]
        extra_stats.update(si["stats"])
    sysinfo = None
    if pid == "C15" and not replay:
        # the whole system as one state machine (captain, timers machine, store, firings, crash/restart)
        import system_checks
        sysinfo = system_checks.stage(pid, tier, seed, wd, rep)
        extra_stats.update(sysinfo["stats"])
        for k in ("lines", "distinct", "generated"):
            t[k] += sysinfo[k]
    rc = rep.finish()
    stats.update(extra_stats)
    first = json.loads(open(out).readline())
    vlib.write_evidence(pid, tier, seed, {
        "states": max(1, t["distinct"]), "transitions": max(1, t["generated"]), "traces_validated_against_impl": t["lines"],
        "samples": [{"history": json.loads(first["raw"]), "first_step_events": first["steps"][0]["events"][:6] if first["steps"] else []}],
        "evaluations": stats.get("steps", 0), "distinct_nontrivial": stats.get("presents", 0) if pid == "C14" else stats.get("restarts", 0),
        "rule": "seeded histories over recorder crews; C14: 1-4 machines, routing targets from the whole vocabulary (absent, id, '*', lists with unknown/repeated/non-string members, service names, non-string), emission depth <=2; "
                "C15: captain create/replace-state/replace-spec/delete/re-create operations (also emitted by machines) interleaved with ordinary messages, restart at every boundary; "
                "C15 system stage: every behaviour TLC reaches on SioSystem.tla within the depth bound (one per generated state; a seeded sample in quick) replayed on the real crew, "
                "seeded random runs chosen from what the real crew enables, and siostd-style runs with unobserved firings; "
                "non-trivial = presentations observed (C14) / restarted crews compared (C15)",
        "judge_stats": stats, "exhaustive": False,
        "known_findings_hit": {k: v["count"] for k, v in rep.known.items()},
    }, ASSUME[pid], time.time() - t0, len(rep.violations))
    return rc
