"""C10 (ECMAScript isolation) and C11 (action timeouts).  spec/Interp.tla and spec/ExecTime.tla are the
models (with negative controls that TLC must refute: a pooled runtime, no watcher, no cancel());
interpdrv records the real interpreter; spec/Trace_Interp.tla judges."""
import json
import os
import time

import vlib
from vlib import log

ASSUME = {
    "C10": ["probe observations are compared with a solo probe run on pristine data in the same process",
            "polluters: globals, built-in prototypes, JSON/Object functions, members of the environment object, in-place mutation of bindings and props at any depth, throw after polluting",
            "8-16 goroutines share the compiled programs in the concurrent part; the -race build is used in the thorough tier as a sensor"],
    "C11": ["'promptly' = within Slack of max(start, context end): 500 ms up to 4 concurrent executions, 2.5 s up to 64 (measured overshoot is ~1-300 ms under 64-way load on 16 cores); a build that never interrupts is caught by the 6 s watchdog",
            "scripts spend their time in interpreted code (loops, recursion, property/array/string churn); deadlines 0-300 ms, cancellation at 0-60 ms",
            "no-leak = runtime.NumGoroutine() back to its value before the batch within 400 ms"],
}


def mc(pid):
    gen = dist = 0
    cfgs = {"C10": [("MC_Interp.tla", "MC_Interp.cfg", True), ("MC_Interp.tla", "MC_Interp_negctl.cfg", False)],
            "C11": [("ExecTime.tla", "MC_ExecTime_TRUE.cfg", True), ("ExecTime.tla", "MC_ExecTime_FALSE.cfg", True),
                    ("ExecTime.tla", "MC_ExecTime_negctl_nowatcher.cfg", False), ("ExecTime.tla", "MC_ExecTime_negctl_nocancel.cfg", False)]}[pid]
    for mod, cfg, should_hold in cfgs:
        d = vlib.fresh_dir(pid, "mc_" + cfg[:-4])
        r = vlib.tlc(d, mod, cfg, workers=2, timeout=600, heap="2g")
        gen += r["generated"]
        dist += r["distinct"]
        if should_hold and not r["ok"]:
            raise vlib.CannotRun("model %s/%s does not satisfy its properties:\n%s" % (mod, cfg, r["out"][-2000:]))
        if not should_hold and r["ok"]:
            raise vlib.CannotRun("negative control %s/%s was not refuted by TLC (the model is vacuous)" % (mod, cfg))
    return gen, dist


def run(pid, tier, seed, replay):
    t0 = time.time()
    wd = vlib.fresh_dir(pid)
    drv = vlib.build_driver("interpdrv", wd)
    rep = vlib.Report(pid)
    gen, dist = mc(pid)
    log("  models checked (negative controls refuted)")
    key = pid.lower()
    mode = {"C10": "iso", "C11": "time"}[pid]
    n = {"C10": (400, 8000), "C11": (40, 400)}[pid][0 if tier == "quick" else 1]
    out = os.path.join(wd, mode + ".ndjson")
    p0 = vlib.run([drv, mode, str(n), str(seed), out], timeout=7000, check=False)
    runs = [(mode, out)]
    if p0.returncode != 0:
        if "fatal error:" in p0.stdout or "panic:" in p0.stdout:
            # the interpreter brought the host process down while executions ran side by side: isolation (C10) and
            # promptness (C11) are both about executions that come back
            rep.reject("the driver process died inside the interpreter (%s)" % mode, [],
                       {"property": pid, "labels": ["host-process-crashed"], "mode": mode, "seed": seed, "n": n,
                        "how_to_rerun": "interpdrv %s %d %d out.ndjson" % (mode, n, seed), "output": p0.stdout[-3000:]})
            runs = []
        else:
            raise vlib.CannotRun("interpdrv failed (%s):\n%s" % (mode, p0.stdout[-3000:]))
    if pid == "C10":
        rdrv = vlib.build_driver("interpdrv", wd, race=True)
        o2 = os.path.join(wd, "iso_race.ndjson")
        p = vlib.run([rdrv, "iso", "60" if tier == "quick" else "300", str(seed + 1), o2], env=dict(os.environ, GORACE="halt_on_error=0"), timeout=7000, check=False)
        if "WARNING: DATA RACE" in p.stdout:
            rep.reject("data race reported while one compiled program is executed from many goroutines", [], {"property": pid, "race": p.stdout[-3000:]})
        if p.returncode != 0 and ("fatal error:" in p.stdout or "panic:" in p.stdout):
            rep.reject("the race-build driver process died inside the interpreter (iso)", [],
                       {"property": pid, "labels": ["host-process-crashed"], "mode": "iso-race", "output": p.stdout[-3000:]})
        elif p.returncode != 0 and "WARNING: DATA RACE" not in p.stdout:
            raise vlib.CannotRun("interpdrv (race build) failed:\n%s" % p.stdout[-3000:])
        else:
            runs.append(("iso-race", o2))
    judged, stats_all, samples = 0, {}, []
    for name, path in runs:
        jd = vlib.fresh_dir(pid, "judge_" + name)
        bad, stats, t = vlib.judge_cases(jd, "Trace_Interp.tla", "Trace_Interp.cfg", path)
        gen += t["generated"]
        dist += t["distinct"]
        judged += t["lines"]
        for k, v in stats.items():
            stats_all[k] = stats_all.get(k, 0) + v
        for b in bad:
            if b.get(key):
                c = b["case"]
                small = {k: c[k] for k in c if k in ("raw", "polluters", "after", "bsAfter", "propsAfter", "execs", "gBefore", "gAfter", "par")}
                rep.reject("%s: %s on %s" % (name, ",".join(b[key]), json.dumps(small)[:500]), b.get("sigs", []), {"property": pid, "labels": b[key], "case": small})
        c = json.loads(open(path).readline())
        samples.append({k: c[k] for k in c if k in ("polluters", "after", "execs", "gBefore", "gAfter")})
        log("  judged %s: %d cases, %d rejected; %s" % (name, t["lines"], len(bad), stats))
    rc = rep.finish()
    vlib.write_evidence(pid, tier, seed, {
        "states": max(1, dist), "transitions": max(1, gen), "traces_validated_against_impl": judged, "samples": samples,
        "evaluations": stats_all.get("probes", 0) + stats_all.get("execs", 0),
        "distinct_nontrivial": stats_all.get("probes", 0) if pid == "C10" else stats_all.get("timeouts", 0),
        "rule": "C10: seeded sequences of 1-3 polluting scripts followed by probes (sequential and concurrent); non-trivial = probe executions. "
                "C11: seeded batches of 1-64 concurrent executions of looping scripts under deadlines/cancellation; non-trivial = executions that ended by timeout",
        "judge_stats": stats_all, "exhaustive": False, "known_findings_hit": {k: v["count"] for k, v in rep.known.items()},
    }, ASSUME[pid], time.time() - t0, len(rep.violations))
    return rc
