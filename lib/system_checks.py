"""The whole-system stage (spec/SystemOps.tla, SioSystem.tla, MC_SioSystem.tla, Trace_System.tla):
the single-loop crew with captain, timers machine, host store, timer firings at arbitrary moments and
crash/restart at arbitrary points, model-checked by TLC on a scenario and bound to the real sio.Crew
in both directions: every behaviour TLC reaches (one per distinct state) is replayed on the real crew,
random behaviours chosen from what the real crew enables are recorded, and TLC (Trace_System) checks
every recorded step against the next-state relation of the model.  Runs as part of C15."""
import json
import os
import re

import vlib
from vlib import log

NEG = [("MC_SioSystem_negctl_firedrops.cfg", "StoreIsLive", "pre-repair report of a firing timer (FireDropsBs)"),
       ("MC_SioSystem_negctl_wedge.cfg", "RelockScheduledUndisturbed", "pre-repair service machines that keep a failed request's bindings (Wedge)"),
       ("MC_SioSystem_negctl_makecancel.cfg", "RelockScheduledUndisturbed", "pre-repair makeTimer on a pending id (MakeOnPending = cancel)"),
       ("MC_SioSystem_relock_crash.cfg", "RelockScheduledNoDirect", "a fired timer's message waiting in the input queue is lost by a crash (inherent)")]


DEVIATION_CFGS = ["%s.cfg", "%s_keep.cfg"]


def judge_any(pid, name, module, cases, extra_files):
    """Where a property leaves a choice the judge admits each choice: a makeTimer for a pending id may replace the pending timer
    (what the code does) or be refused (the pending timer stays) - a run is rejected only if it is a behaviour of the model under
    neither.  The pre-repair shapes (Wedge, MakeOnPending = cancel, FireDropsBs, EmitOnFailedWrite) are defects and are not admitted."""
    base = module[:-4]
    first = None
    rejected = None
    for i, pat in enumerate(DEVIATION_CFGS):
        jd = vlib.fresh_dir(pid, "%s_%d" % (name, i))
        bad, stats, t = vlib.judge_cases(jd, module, pat % base, cases, extra_files=extra_files)
        ids = {b["case"]["id"] for b in bad}
        if first is None:
            first = (bad, stats, t)
        rejected = ids if rejected is None else (rejected & ids)
        if not rejected:
            break
    bad, stats, t = first
    return [b for b in bad if b["case"]["id"] in rejected], stats, t


def stage(pid, tier, seed, wd, rep):
    drv = vlib.build_driver("sysdrv", wd)
    cfgfile = os.path.join(wd, "sysconfig.ndjson")
    vlib.run([drv, "config", cfgfile])
    gen = dist = 0

    def mc(cfg, workers=8, timeout=3000):
        d = vlib.fresh_dir(pid, "mc_" + cfg[:-4])
        vlib.run(["cp", cfgfile, d])
        r = vlib.tlc(d, "MC_SioSystem.tla", cfg, workers=workers, timeout=timeout, heap="6g")
        return r

    # 1. the faithful model: system invariants over every interleaving of inputs, firings, deliveries and restarts;
    #    the same run prints one behaviour per state it generates (model -> code, step 3)
    # 2. sensitivity: shapes that TLC must refute, and the idealised shape on which the scenario invariant holds
    #    (all TLC runs of this stage go in parallel)
    import concurrent.futures as cf0
    plan = [("main", "MC_SioSystem_export.cfg" if tier == "quick" else "MC_SioSystem_export5.cfg", 6)]
    if tier != "quick":
        plan.append(("deep", "MC_SioSystem_6.cfg", 8))
    for cfg, inv, what in NEG:
        plan.append(("neg:" + inv, cfg, 2))
    with cf0.ThreadPoolExecutor(max_workers=len(plan)) as ex:
        results = list(ex.map(lambda t3: (t3[0], t3[1], mc(t3[1], workers=t3[2], timeout=6000)), plan))
    main_states = 0
    export_out = ""
    for name, cfg, r in results:
        gen += r["generated"]
        dist += r["distinct"]
        if name in ("main", "deep"):
            if not r["ok"]:
                raise vlib.CannotRun("SioSystem.tla (%s): the system invariants do not hold on the model:\n%s" % (cfg, r["out"][-3000:]))
            main_states = max(main_states, r["distinct"])
            if name == "main":
                export_out = r["out"]
        else:
            inv = name[4:]
            if r["ok"] or ("Invariant %s is violated" % inv) not in r["out"]:
                raise vlib.CannotRun("SioSystem.tla / %s: expected a refutation of %s\n%s" % (cfg, inv, r["out"][-1500:]))
    # 3. model -> code: the exported behaviours are replayed on the real crew
    behs = set()
    for line in export_out.splitlines():
        m = re.match(r'^"?BEH (<<.*>>)"?$', line.strip())
        if m:
            js = m.group(1).replace("<<", "[").replace(">>", "]").replace('\\"', '"')
            behs.add(js)
    behs = sorted(b for b in behs if b != "[]")
    nall = len(behs)
    cap = 6000 if tier == "quick" else 200000
    if len(behs) > cap:
        import random
        behs = sorted(random.Random(seed).sample(behs, cap))
    if len(behs) < 100:
        raise vlib.CannotRun("SioSystem.tla export produced only %d behaviours" % len(behs))
    bfile = os.path.join(wd, "behaviours.ndjson")
    with open(bfile, "w") as f:
        for b in behs:
            f.write('{"acts":%s}\n' % b)
    out = os.path.join(wd, "system_runs.ndjson")
    import concurrent.futures as cf

    def rshard(i):
        part = behs[i::8]
        bf = os.path.join(wd, "behaviours_%02d.ndjson" % i)
        with open(bf, "w") as f:
            for b in part:
                f.write('{"acts":%s}\n' % b)
        o = os.path.join(wd, "system_runs_%02d.ndjson" % i)
        vlib.run([drv, "replay", bf, o], timeout=6000)
        return o
    with cf.ThreadPoolExecutor(max_workers=8) as ex:
        parts = list(ex.map(rshard, range(8)))
    k = 0
    with open(out, "w") as f:
        for o in parts:
            for line in open(o):
                k += 1
                c = json.loads(line)
                c["id"] = k
                f.write(json.dumps(c) + "\n")
    # 4. code -> model: random behaviours chosen from what the REAL crew enables
    rnd = os.path.join(wd, "system_random.ndjson")
    vlib.run([drv, "random", str(1500 if tier == "quick" else 30000), str(seed), "10" if tier == "quick" else "14", rnd], timeout=6000)
    with open(out, "a") as f:
        for line in open(rnd):
            k += 1
            c = json.loads(line)
            c["id"] = k
            f.write(json.dumps(c) + "\n")
    bad, stats, t = judge_any(pid, "judge_system", "Trace_System.tla", out, [cfgfile])
    TIMEOUTS = {"goroutine-never-waited", "goroutine-stuck", "emitted-nothing"}
    for b in bad:
        c = b["case"]
        acts = json.loads(c["raw"])["acts"]
        last = c["steps"][-1]["real"] if c["steps"] else ""
        if last in TIMEOUTS:
            # the harness gave up waiting (2 s) for a timer goroutine: under load that is not evidence; the behaviour is
            # re-run alone three times and rejected only if it never completes or fails in another way
            again = []
            for k in range(3):
                t2 = replay_one(pid, wd, drv, cfgfile, acts, "retry%d_%d" % (c["id"], k))
                again.append(t2)
            if any(a == [] for a in again) and not any(a and a[0] not in TIMEOUTS for a in again):
                log("  (a harness timeout on %s did not repeat: ignored)" % json.dumps(acts))
                continue
        rep.reject("sio crew leaves the system model (%s) at step %s of %s" % (",".join(sorted(b["system"])), b.get("at"), json.dumps(acts)),
                   b.get("sigs", []), {"property": pid, "kind": "system", "labels": sorted(b["system"]), "at": b.get("at"), "acts": acts})
    # 5. the crew as siostd runs it (real Loop, Stdio couplings, JSON state file, self-firing timers, restarts from the file):
    #    only lines and the state file are observed; TLC searches for the silent Fire/Deliver steps
    io = stdio_stage(pid, tier, seed, wd, drv, rep)
    log("  SioSystem.tla: %d states (system and scenario invariants hold; %d pre-repair / inherent shapes refuted as expected); %d model behaviours + %d random runs replayed on the real crew, %d steps, %d rejected"
        % (main_states, len(NEG), len(behs), t["lines"] - len(behs), stats.get("steps", 0), len(bad)))
    st = {"system." + k: v for k, v in stats.items()}
    st.update({"system.stdio." + k: v for k, v in io["stats"].items()})
    return {"generated": gen + t["generated"] + io["generated"], "distinct": dist + t["distinct"] + io["distinct"], "lines": t["lines"] + io["lines"],
            "stats": st, "behaviours": len(behs)}


STDIO_IN = "30ms"


def stdio_stage(pid, tier, seed, wd, drv, rep, acts=None):
    import concurrent.futures as cf
    d = os.path.join(wd, "stdio")
    os.makedirs(d, exist_ok=True)
    env = dict(os.environ, SYSDRV_IN=STDIO_IN)
    cfgfile = os.path.join(d, "sysconfig.ndjson")
    vlib.run([drv, "config", cfgfile], env=env)
    out = os.path.join(d, "stdio_runs.ndjson")
    if acts is not None:
        b = os.path.join(d, "replay_in.ndjson")
        open(b, "w").write(json.dumps({"acts": acts}) + "\n")
        vlib.run([drv, "stdio-replay", b, out], env=env, timeout=600)
    else:
        n = 240 if tier == "quick" else 4000

        def one(i):
            o = os.path.join(d, "stdio_%02d.ndjson" % i)
            vlib.run([drv, "stdio", str(n // 8), str(seed * 100 + i), "12", o], env=env, timeout=6000)
            return o
        with cf.ThreadPoolExecutor(max_workers=8) as ex:
            outs = list(ex.map(one, range(8)))
        k = 0
        with open(out, "w") as f:
            for o in outs:
                for line in open(o):
                    k += 1
                    c = json.loads(line)
                    c["id"] = k
                    f.write(json.dumps(c) + "\n")
    bad, stats, t = judge_any(pid, "judge_system_io", "Trace_SystemIO.tla", out, [cfgfile])
    for b in bad:
        c = b["case"]
        acts2 = json.loads(c["raw"])["acts"]
        rep.reject("the crew run as siostd runs it is not a behaviour of the system model (stuck at recorded step %s of %s)" % (b.get("at"), json.dumps(acts2)),
                   b.get("sigs", []), {"property": pid, "kind": "system-stdio", "labels": sorted(b["system"]), "at": b.get("at"), "acts": acts2})
    log("  siostd-style runs: %d histories (%s submits, %s waits, %s restarts), TLC found silent Fire/Deliver steps for %s, %s not judged (non-deterministic), %d rejected"
        % (t["lines"], stats.get("submits"), stats.get("waits"), stats.get("restarts"), stats.get("accepted"), stats.get("unjudged"), len(bad)))
    t["stats"] = stats
    return t


def replay_one(pid, wd, drv, cfgfile, acts, tag):
    """re-run one behaviour; returns [] when the judge accepts it, else [last real outcome]"""
    bfile = os.path.join(wd, "b_%s.ndjson" % tag)
    open(bfile, "w").write(json.dumps({"acts": acts}) + "\n")
    out = os.path.join(wd, "o_%s.ndjson" % tag)
    vlib.run([drv, "replay", bfile, out], timeout=600)
    bad, stats, t = judge_any(pid, "judge_" + tag, "Trace_System.tla", out, [cfgfile])
    if not bad:
        return []
    c = bad[0]["case"]
    return [c["steps"][-1]["real"] if c["steps"] else "?"]


def replay(pid, wd, rep, payload):
    drv = vlib.build_driver("sysdrv", wd)
    if payload.get("kind") == "system-stdio":
        return stdio_stage(pid, "quick", 1, wd, drv, rep, acts=payload["acts"])
    cfgfile = os.path.join(wd, "sysconfig.ndjson")
    vlib.run([drv, "config", cfgfile])
    bfile = os.path.join(wd, "behaviours.ndjson")
    open(bfile, "w").write(json.dumps({"acts": payload["acts"]}) + "\n")
    out = os.path.join(wd, "system_runs.ndjson")
    vlib.run([drv, "replay", bfile, out], timeout=600)
    bad, stats, t = judge_any(pid, "judge_system", "Trace_System.tla", out, [cfgfile])
    for b in bad:
        rep.reject("sio crew leaves the system model (%s) at step %s" % (",".join(sorted(b["system"])), b.get("at")), [],
                   {"property": pid, "kind": "system", "labels": sorted(b["system"]), "at": b.get("at"), "acts": payload["acts"]})
    return t


# ---------------------------------------------------------------- the mcrew host (runs as part of C16)

MCREW_DRIVER = ["harness/mcrew/driver_test.go", "harness/mcrew/timers_driver_test.go", "harness/mcrew/system_driver_test.go"]


def mcrew_stage(pid, tier, seed, wd, rep, binary, acts=None):
    """McrewSystem.tla: model-checked, its behaviours replayed on the real Service (Process calls gated before the crew lock,
    timer goroutines gated before their select), random runs recorded, Trace_McrewSystem.tla validates every step."""
    import concurrent.futures as cf
    import random
    import subprocess
    drv = vlib.build_driver("sysdrv", wd)
    d = os.path.join(wd, "mcrewsys")
    os.makedirs(d, exist_ok=True)
    vlib.run([drv, "mcrew-config", d])
    cfgfile = os.path.join(d, "mcrewconfig.ndjson")
    gen = dist = 0
    main_states = 0
    behs = []

    def mc(cfg, workers=8, timeout=3000):
        md = vlib.fresh_dir(pid, "mcsys_" + cfg[:-4])
        vlib.run(["cp", cfgfile, md])
        return vlib.tlc(md, "MC_McrewSystem.tla", cfg, workers=workers, timeout=timeout, heap="6g")

    if acts is None:
        r = mc("MC_McrewSystem_export.cfg" if tier == "quick" else "MC_McrewSystem_export5.cfg")
        if not r["ok"]:
            raise vlib.CannotRun("McrewSystem.tla: the system invariants do not hold on the model:\n" + r["out"][-3000:])
        gen += r["generated"]
        dist += r["distinct"]
        main_states = r["distinct"]
        seen = set()
        for line in r["out"].splitlines():
            m = re.match(r'^"?BEH (<<.*>>)"?$', line.strip())
            if m:
                seen.add(m.group(1).replace("<<", "[").replace(">>", "]").replace('\\"', '"'))
        # behaviours that take a message outside the table (number 0) cannot be replayed by name
        behs = sorted(b for b in seen if b != "[]" and '["t", 0]' not in b)
        if len(behs) < 100:
            raise vlib.CannotRun("McrewSystem.tla export produced only %d behaviours" % len(behs))
        cap = 4000 if tier == "quick" else 100000
        if len(behs) > cap:
            behs = sorted(random.Random(seed).sample(behs, cap))
        r = mc("MC_McrewSystem_negctl.cfg")
        gen += r["generated"]
        dist += r["distinct"]
        if r["ok"] or "Invariant EmissionsPersisted is violated" not in r["out"]:
            raise vlib.CannotRun("McrewSystem.tla: the pre-repair shape (EmitOnFailedWrite) should be refuted:\n" + r["out"][-1500:])
    else:
        behs = [json.dumps(acts)]

    def drive(i, mode, env):
        o = os.path.join(d, "raw_%s_%02d.ndjson" % (mode, i))
        e = dict(os.environ, VERIF_SYS_MODE=mode, VERIF_SYS_DIR=d, VERIF_OUT_FILE=o)
        e.update({k: str(v) for k, v in env.items()})
        p = subprocess.run([binary, "-test.run", "TestVerifSystem", "-test.timeout", "3000s"], env=e, cwd=d,
                           stdout=subprocess.PIPE, stderr=subprocess.STDOUT, text=True)
        if p.returncode != 0:
            raise vlib.CannotRun("mcrew system driver failed (%s):\n%s" % (mode, p.stdout[-3000:]))
        return o

    jobs = []
    nsh = 8 if len(behs) > 8 else 1
    for i in range(nsh):
        part = behs[i::nsh]
        bf = os.path.join(d, "beh_%02d.ndjson" % i)
        with open(bf, "w") as f:
            for b in part:
                f.write('{"acts":%s}\n' % b)
        jobs.append((i, "replay", {"VERIF_IN": bf}))
    if acts is None:
        n = 1200 if tier == "quick" else 24000
        for i in range(8):
            jobs.append((i, "random", {"VERIF_N": n // 8, "VERIF_SEED": seed * 100 + i, "VERIF_MAXLEN": 12 if tier == "quick" else 16}))
    with cf.ThreadPoolExecutor(max_workers=8) as ex:
        raws = list(ex.map(lambda j: drive(*j), jobs))
    raw = os.path.join(d, "raw_all.ndjson")
    k = 0
    with open(raw, "w") as f:
        for o in raws:
            for line in open(o):
                k += 1
                c = json.loads(line)
                c["id"] = k
                f.write(json.dumps(c) + "\n")
    cases = os.path.join(d, "system_cases.ndjson")
    vlib.run([drv, "mcrew-encode", raw, cases], timeout=3000)
    jd = vlib.fresh_dir(pid, "judge_mcrew_system")
    bad, stats, t = vlib.judge_cases(jd, "Trace_McrewSystem.tla", "Trace_McrewSystem.cfg", cases, extra_files=[cfgfile])
    unreproduced = 0
    for bi, b in enumerate(bad):
        c = b["case"]
        a2 = json.loads(c["raw"])["acts"]
        if acts is None:
            # The run is determined by its actions (every Process call and every timer goroutine is gated), so a rejection
            # that is the service's doing shows again when the same actions are replayed alone; one that came from a call
            # that was not scheduled within the gate's patience on a busy machine does not, and is not a violation.
            again = 0
            for k2 in range(2):
                bf = os.path.join(d, "recheck_%d_%d.ndjson" % (bi, k2))
                open(bf, "w").write('{"acts":%s}\n' % json.dumps(a2))
                o2 = drive(900 + bi * 2 + k2, "replay", {"VERIF_IN": bf})
                rc_raw = os.path.join(d, "recheck_raw_%d_%d.ndjson" % (bi, k2))
                with open(rc_raw, "w") as f:
                    for line in open(o2):
                        c2 = json.loads(line)
                        c2["id"] = 1
                        f.write(json.dumps(c2) + "\n")
                rc_cases = os.path.join(d, "recheck_cases_%d_%d.ndjson" % (bi, k2))
                vlib.run([drv, "mcrew-encode", rc_raw, rc_cases], timeout=3000)
                jd2 = vlib.fresh_dir(pid, "judge_mcrew_recheck")
                bad2, _, _ = vlib.judge_cases(jd2, "Trace_McrewSystem.tla", "Trace_McrewSystem.cfg", rc_cases, extra_files=[cfgfile])
                if bad2:
                    again += 1
            if again == 0:
                unreproduced += 1
                log("  (a rejected run was accepted twice when replayed alone: not reproduced, not a violation: %s)" % json.dumps(a2))
                continue
        rep.reject("mcrew service leaves the system model (%s) at step %s of %s" % (",".join(sorted(b["system"])), b.get("at"), json.dumps(a2)),
                   b.get("sigs", []), {"property": pid, "kind": "mcrew-system", "labels": sorted(b["system"]), "at": b.get("at"), "acts": a2})
    log("  McrewSystem.tla: %d states (MemEqualsStore, EmissionsPersisted hold; pre-repair shape refuted); %d model behaviours + %d random runs replayed on the real service, %d steps (%s takes, %s firings), %d rejected"
        % (main_states, len(behs), t["lines"] - len(behs), stats.get("steps", 0), stats.get("takes"), stats.get("fires"), len(bad)))
    return {"generated": gen + t["generated"], "distinct": dist + t["distinct"], "lines": t["lines"], "stats": {"mcrewsystem." + k2: v for k2, v in stats.items()}}
