"""C12: a compiled spec is shared immutable data; spec updates are atomic.  spec/Specter.tla (with a torn-update
negative control), spec/Trace_Specter.tla (linearizability of concurrent walks and swaps against the results each
(version, input) gives alone); specterdrv drives the real core.UpdatableSpec / Spec.Walk, also under -race."""
import json
import os
import time

import vlib
from vlib import log

ASSUME = [
    "the result a walk 'would obtain alone' is taken from the real engine run sequentially in the same process (solo table); the step semantics itself is judged by C04/C05",
    "every action emits its version tag, so a mixed-version walk cannot equal any solo result",
    "data races are observed with the race detector as a sensor (each report is a violation); absence of a report means no race on the executions driven",
    "GOMAXPROCS in {2, 4, 16}; 2-6 concurrent walkers x 2 walks, 3 swaps per history",
]


def run(pid, tier, seed, replay):
    t0 = time.time()
    wd = vlib.fresh_dir(pid)
    rep = vlib.Report(pid)
    gen = dist = 0
    for cfg, hold in (("MC_Specter.cfg", True), ("MC_Specter_negctl.cfg", False)):
        d = vlib.fresh_dir(pid, "mc_" + cfg[:-4])
        r = vlib.tlc(d, "Specter.tla", cfg, workers=2, timeout=600, heap="2g")
        gen += r["generated"]
        dist += r["distinct"]
        if hold != bool(r["ok"]):
            raise vlib.CannotRun("Specter.tla / %s: expected %s" % (cfg, "no error" if hold else "a refutation of the negative control"))
    drv = vlib.build_driver("specterdrv", wd)
    rdrv = vlib.build_driver("specterdrv", wd, race=True)
    runs = []
    out = os.path.join(wd, "plain.ndjson")
    p0 = vlib.run([drv, "run", str(300 if tier == "quick" else 6000), str(seed), out], timeout=7000, check=False)
    if p0.returncode != 0:
        if "fatal error: concurrent map" in p0.stdout:
            # the Go runtime itself detected unsynchronised map access and aborted the process: a behaviour of the real code
            rep.reject("the Go runtime aborted the driver: concurrent map access while machines were walked concurrently over one spec", [],
                       {"property": pid, "runtime_abort": p0.stdout[:5000]})
        else:
            raise vlib.CannotRun("specterdrv failed:\n" + p0.stdout[-3000:])
    else:
        runs.append(("plain", out))
    out = os.path.join(wd, "race.ndjson")
    p = vlib.run([rdrv, "run", str(100 if tier == "quick" else 1500), str(seed + 1), out], env=dict(os.environ, GORACE="halt_on_error=0"), timeout=7000, check=False)
    nrace = p.stdout.count("WARNING: DATA RACE")
    if nrace:
        rep.reject("%d data race report(s) while machines are walked concurrently over one spec object" % nrace, [], {"property": pid, "race": p.stdout[:6000]})
    if os.path.exists(out) and os.path.getsize(out) > 0:
        runs.append(("race-build", out))
    judged, stats_all, samples = 0, {}, []
    for name, path in runs:
        jd = vlib.fresh_dir(pid, "judge_" + name)
        bad, stats, t = vlib.judge_cases(jd, "Trace_Specter.tla", "Trace_Specter.cfg", path, parallel=8)
        gen += t["generated"]
        dist += t["distinct"]
        judged += t["lines"]
        for k, v in stats.items():
            stats_all[k] = stats_all.get(k, 0) + v
        for b in bad:
            c = b["case"]
            rep.reject("%s: %s at event %s (%s)" % (name, ",".join(sorted(b["c12"])), b.get("stuckAt"), c["raw"]), b.get("sigs", []),
                       {"property": pid, "labels": sorted(b["c12"]), "stuckAt": b.get("stuckAt"), "case": {"raw": c["raw"], "events": c["events"][:40]}})
        c = json.loads(open(path).readline())
        samples.append({"source": name, "events": c["events"][:6]})
        log("  judged %s: %d histories, %d rejected; %s" % (name, t["lines"], len(bad), stats))
    rc = rep.finish()
    vlib.write_evidence(pid, tier, seed, {
        "states": max(1, dist), "transitions": max(1, gen), "traces_validated_against_impl": judged, "samples": samples,
        "evaluations": stats_all.get("walks", 0), "distinct_nontrivial": stats_all.get("walks", 0),
        "rule": "seeded histories: 2-3 spec versions (native + ECMAScript actions and guards, failing and succeeding), 3-6 distinct machine inputs, concurrent walkers and a swapper; non-trivial = concurrent walks judged",
        "judge_stats": stats_all, "race_reports": nrace, "exhaustive": False, "known_findings_hit": {k: v["count"] for k, v in rep.known.items()},
    }, ASSUME, time.time() - t0, len(rep.violations))
    return rc
