"""C19: the expectation tool's verdict is sound.  spec/Expect.tla gives SpecPass and an
implementation-shaped model of the reader loop; MC_Expect enumerates all small sessions,
checks the documented loop against SpecPass and exports the sessions; the real
Session.Run is run on them (line-echo subprocess) and Trace_Expect judges its verdicts."""
import json
import os
import random
import time

import vlib
from vlib import log

ASSUME = [
    "only soundness (tool passed => SpecPass) is the property; spurious failures of the tool (e.g. a slow echo under load) are counted, not reported",
    "the stream is what a line-echo subprocess (cat) returns for the session's inputs; step timeout 100-150 ms",
    "timing sessions: a shell echo loop holds a marked line back for 0.7 s; default timeout 100-150 ms, a step's own long timeout 2.2 s; a false pass in a timing session is re-run alone three times and reported only if it repeats (an overloaded machine can stretch the tool's timeout)",
    "sessions whose patterns can yield several candidates for one line are outside the judged class (the tool hands one candidate to a guard)",
    "weakest reading of a step's window: some prefix of the available lines satisfies all expected outputs and matches no forbidden one",
]


def run(pid, tier, seed, replay):
    t0 = time.time()
    wd = vlib.fresh_dir(pid)
    drv = vlib.build_driver("expectdrv", wd)
    rep = vlib.Report(pid)
    gen = dist = 0
    sessions = os.path.join(wd, "sessions.ndjson")
    exhaustive = False
    if replay:
        c = json.load(open(replay))["case"]
        open(sessions, "w").write(c["raw"] + "\n")
    else:
        rnd = random.Random(seed)
        picked = []
        for cfg, nq, nt in (("MC_Expect.cfg", 2500, None), ("MC_Expect_2step.cfg", 600, 30000), ("MC_Expect_timeouts.cfg", 250, None), ("MC_Expect_candidates.cfg", 400, None)):
            d = vlib.fresh_dir(pid, "mc_" + cfg[:-4])
            r = vlib.tlc_ok(d, "MC_Expect.tla", cfg, workers=1, timeout=3000, heap="8g")
            gen += r["generated"]
            dist += r["distinct"]
            lines = open(os.path.join(d, "export.ndjson")).read().splitlines()
            n = nq if tier == "quick" else nt
            log("  MC %s: %d sessions enumerated, ToolSound holds on the model (%.0fs)" % (cfg, len(lines), r["wall"]))
            if n is None or n >= len(lines):
                picked += lines
                exhaustive = True
            else:
                # stratified: sessions with outputs and lines are the interesting ones
                rich = [x for x in lines if x.count('"pat"') >= 1 and x.count('"lines":[]') == 0]
                picked += rnd.sample(rich, min(n, len(rich)))
        open(sessions, "w").write("\n".join(picked) + "\n")
    out = os.path.join(wd, "verdicts.ndjson")
    # tools/expect never waits for the process it starts, so every session leaves a zombie (and its pidfd) behind until the
    # driver process ends: the sessions are run in batches, one driver process per batch (30,000 sessions in one process
    # exhausted the machine's process ids and took every other running program down with EAGAIN)
    all_lines = open(sessions).read().splitlines()
    with open(out, "w") as fo:
        for k in range(0, len(all_lines), 2000):
            part = os.path.join(wd, "sessions_part.ndjson")
            open(part, "w").write("\n".join(all_lines[k:k + 2000]) + "\n")
            pout = os.path.join(wd, "verdicts_part.ndjson")
            vlib.run([drv, "run", part, pout, "100" if tier == "quick" else "150", "16"], timeout=7200)
            for line in open(pout):
                c = json.loads(line)
                c["id"] += k
                fo.write(json.dumps(c) + "\n")
    jd = vlib.fresh_dir(pid, "judge")
    bad, stats, t = vlib.judge_cases(jd, "Trace_Expect.tla", "Trace_Expect.cfg", out)
    for b in bad:
        if b.get("c19") and '"slow"' in b["case"]["raw"] and not replay:
            # timing-sensitive: re-run alone; report only what repeats
            again = 0
            for k in range(3):
                one = os.path.join(wd, "retry_%d_%d.ndjson" % (b["case"]["id"], k))
                open(one, "w").write(b["case"]["raw"] + "\n")
                o2 = one + ".out"
                vlib.run([drv, "run", one, o2, "150", "1"], timeout=600)
                jd2 = vlib.fresh_dir(pid, "judge_retry_%d_%d" % (b["case"]["id"], k))
                bad2, _, _ = vlib.judge_cases(jd2, "Trace_Expect.tla", "Trace_Expect.cfg", o2)
                again += 1 if any(x.get("c19") for x in bad2) else 0
            if again == 0:
                log("  (a false pass in a timing session did not repeat: ignored) %s" % b["case"]["raw"][:200])
                continue
        if b.get("c19"):
            c = b["case"]
            rep.reject("%s on %s" % (",".join(b["c19"]), c["raw"][:500]), b.get("sigs", []),
                       {"property": pid, "labels": b["c19"], "case": {"raw": c["raw"], "verdict": c["verdict"], "errtext": c["errtext"]}})
    log("  judged %d sessions: tool passed %d, SpecPass %d, spurious failures %d, rejected %d" %
        (t["lines"], stats.get("passed", 0), stats.get("specpass", 0), stats.get("spuriousfail", 0), len(bad)))
    rc = rep.finish()
    samples = [json.loads(l) for l in open(out).read().splitlines()[:400:150]]
    vlib.write_evidence(pid, tier, seed, {
        "states": max(1, dist + t["distinct"]), "transitions": max(1, gen + t["generated"]),
        "traces_validated_against_impl": t["lines"],
        "samples": [{"steps": s["steps"], "verdict": s["verdict"], "err": s["errtext"][:80]} for s in samples] or [{"note": "none"}],
        "evaluations": t["lines"], "distinct_nontrivial": stats.get("passed", 0),
        "rule": "sessions enumerated by TLC (MC_Expect: all one-step sessions with <=2 outputs x streams of <=3 lines; two-step sessions with 1 output each) "
                "and run through the real Session.Run; non-trivial = sessions the tool passed (the direction the property constrains)",
        "judge_stats": stats, "exhaustive": bool(exhaustive and tier == "thorough"),
        "known_findings_hit": {k: v["count"] for k, v in rep.known.items()},
    }, ASSUME, time.time() - t0, len(rep.violations))
    return rc
