"""C16: mcrew — memory advances only with a successful write; requests serialise.
spec/McrewService.tla (implementation-shaped; TLC explores every interleaving and fault position
and exports the behaviours as gate schedules), spec/ServiceProp.tla (sequential meaning),
spec/Trace_Service.tla (linearizability judge).  The driver is compiled INTO cmd/mcrew with
`go test -overlay`, replays the schedules with the verif-tag hooks as gates, injects storage
faults by closing the bolt handle, and runs free concurrent clients (also under -race)."""
import json
import os
import subprocess
import time

import vlib
from vlib import log

ASSUME = [
    "a machine's state is projected to the list of messages it processed (bindings.log of a recorder spec)",
    "storage faults = the bolt handle closed / reopened between driver steps (never while a write is inside bolt)",
    "gate schedules come from the 'split' shape of McrewService.tla (the unconstrained interleaving of hook-delimited segments); a step not reached within 150 ms makes the schedule unrealisable on this build (counted, the trace is still judged)",
    "linearization points are chosen by TLC between call and return events ordered by one recorder mutex",
    "asynchronous re-processing of emitted messages is not part of these histories (recorder machines emit nothing)",
]
DRIVER = ["harness/mcrew/driver_test.go", "harness/mcrew/timers_driver_test.go", "harness/mcrew/system_driver_test.go"]


def drive(binary, wd, mode, out, **env):
    e = dict(os.environ, VERIF_MODE=mode, VERIF_OUT_FILE=out)
    e.update({k: str(v) for k, v in env.items()})
    p = subprocess.run([binary, "-test.run", "TestVerifDriver", "-test.timeout", "3000s"], env=e, cwd=wd,
                       stdout=subprocess.PIPE, stderr=subprocess.STDOUT, text=True)
    if p.returncode != 0 and "WARNING: DATA RACE" in p.stdout and os.path.exists(out) and os.path.getsize(out) > 0:
        # (a race build: the testing package fails the run at its end because the detector reported something; the
        # histories are complete, and the caller turns the reports into a violation)
        return p.stdout
    if p.returncode != 0:
        raise vlib.CannotRun("mcrew overlay driver failed (%s):\n%s" % (mode, p.stdout[-3000:]))
    return p.stdout


def run(pid, tier, seed, replay):
    t0 = time.time()
    wd = vlib.fresh_dir(pid)
    files = [os.path.join(vlib.VERIF, f) for f in DRIVER]
    binary = vlib.build_overlay_test(wd, "cmd/mcrew", files)
    rep = vlib.Report(pid)
    gen = dist = 0
    runs = []
    if replay and json.load(open(replay)).get("kind") == "mcrew-system":
        import system_checks
        system_checks.mcrew_stage(pid, tier, seed, wd, rep, binary, acts=json.load(open(replay))["acts"])
        return rep.finish()
    if replay:
        raise vlib.CannotRun("replay of C16 histories: re-run the schedule file named in the replay with VERIF_MODE=svc-sched")
    # (a) exhaustive exploration of the models: the repaired shape satisfies MemEqualsStore; the split shape yields the schedules
    sched_file = os.path.join(wd, "schedules.ndjson")
    with open(sched_file, "w") as sf:
        scen = range(1, 9) if tier == "thorough" else (1, 3, 4, 6, 7, 8)
        for sc in scen:
            for shape in ("locked", "split"):
                d = vlib.fresh_dir(pid, "mc_%s_%d" % (shape, sc))
                r = vlib.tlc_ok(d, "MC_McrewService.tla", "MC_McrewService_%s_%d.cfg" % (shape, sc), workers=1, timeout=1800, heap="4g")
                gen += r["generated"]
                dist += r["distinct"]
                if shape == "split":
                    sf.write(open(os.path.join(d, "schedules.ndjson")).read())
    nsched = sum(1 for _ in open(sched_file))
    log("  McrewService: %d states explored, MemEqualsStore holds on the 'locked' shape; %d gate schedules exported from the 'split' shape" % (dist, nsched))
    # replay (sharded over parallel driver processes; quick replays a seeded sample)
    import random
    import concurrent.futures as cf
    lines = open(sched_file).read().splitlines()
    if tier == "quick" and len(lines) > 480:
        lines = random.Random(seed).sample(lines, 480)
    nsh = 16
    outs = []

    def shard(i):
        part = lines[i::nsh]
        if not part:
            return None
        inp = os.path.join(wd, "sched_in_%02d.ndjson" % i)
        open(inp, "w").write("\n".join(part) + "\n")
        o = os.path.join(wd, "sched_out_%02d.ndjson" % i)
        drive(binary, wd, "svc-sched", o, VERIF_IN=inp)
        return o
    with cf.ThreadPoolExecutor(max_workers=nsh) as ex:
        outs = [o for o in ex.map(shard, range(nsh)) if o]
    out = os.path.join(wd, "sched_traces.ndjson")
    with open(out, "w") as f:
        k = 0
        for o in outs:
            for line in open(o):
                k += 1
                c = json.loads(line)
                c["id"] = k
                f.write(json.dumps(c) + "\n")
    runs.append(("schedules", out))
    out = os.path.join(wd, "fault_traces.ndjson")
    drive(binary, wd, "svc-faults", out, VERIF_SEED=seed, VERIF_N=400 if tier == "quick" else 6000)
    runs.append(("faults", out))
    out = os.path.join(wd, "conc_traces.ndjson")
    drive(binary, wd, "svc-conc", out, VERIF_SEED=seed, VERIF_N=300 if tier == "quick" else 5000)
    runs.append(("concurrent", out))
    if True:
        # (the race detector as a sensor for requests that are not serialised: a reader that looks at machines while a
        # request moves them is a data race whether or not the reader happens to see half of the request)
        rbin = vlib.build_overlay_test(wd, "cmd/mcrew", files, race=True)
        out = os.path.join(wd, "race_traces.ndjson")
        txt = drive(rbin, wd, "svc-conc", out, VERIF_SEED=seed + 1, VERIF_N=120 if tier == "quick" else 1500, GORACE="halt_on_error=0")
        if "WARNING: DATA RACE" in txt:
            rep.reject("data race reported by the race detector in free-running concurrent clients", [], {"property": pid, "race": txt[-4000:]})
        runs.append(("concurrent-race", out))
    judged, stats_all, samples = 0, {}, []
    for name, path in runs:
        jd = vlib.fresh_dir(pid, "judge_" + name)
        bad, stats, t = vlib.judge_cases(jd, "Trace_Service.tla", "Trace_Service.cfg", path)
        gen += t["generated"]
        dist += t["distinct"]
        judged += t["lines"]
        for k, v in stats.items():
            stats_all[name + "." + k] = v
        for b in bad:
            c = b["case"]
            rep.reject("%s: history rejected at event %s: %s" % (name, b.get("stuckAt"), c["raw"][:300]), b.get("sigs", []),
                       {"property": pid, "labels": b["c16"], "source": name, "stuckAt": b.get("stuckAt"), "case": c})
        with open(path) as f:
            c = json.loads(f.readline())
            samples.append({"source": name, "events": c["events"][:8]})
        log("  judged %s: %d histories, %d rejected" % (name, t["lines"], len(bad)))
    # the whole host as one state machine (asynchronous re-processing, timers service, failing store)
    import system_checks
    si = system_checks.mcrew_stage(pid, tier, seed, wd, rep, binary)
    gen += si["generated"]
    dist += si["distinct"]
    judged += si["lines"]
    stats_all.update(si["stats"])
    rc = rep.finish()
    vlib.write_evidence(pid, tier, seed, {
        "states": max(1, dist), "transitions": max(1, gen), "traces_validated_against_impl": judged, "samples": samples,
        "evaluations": judged, "distinct_nontrivial": sum(v for k, v in stats_all.items() if k.endswith(".ops")),
        "rule": "gate schedules = every complete behaviour of the split-shape model for the listed scenarios (all interleavings x fault positions); "
                "fault histories and concurrent histories are seeded; system stage: every behaviour TLC reaches on McrewSystem.tla within the depth bound "
                "(a seeded sample in quick) replayed on the real Service with Process calls and timer goroutines gated, plus seeded random runs; non-trivial = operations issued",
        "judge_stats": stats_all, "exhaustive": False,
        "unrealisable_schedules": stats_all.get("schedules.histories", 0) - stats_all.get("schedules.realised", 0),
        "known_findings_hit": {k: v["count"] for k, v in rep.known.items()},
    }, ASSUME, time.time() - t0, len(rep.violations))
    return rc
