#!/usr/bin/env python3
"""Regenerates sections 14.6/14.7 of DESIGN.md (which checks catch which changes) from mutants/expect.json,
mutants/results.json (written by tools/mutants.py --all --record) and seeded/*/meta.json."""
import glob, json, os, re
V = os.path.dirname(os.path.dirname(os.path.abspath(__file__)))
exp = json.load(open(os.path.join(V, "mutants", "expect.json")))
res = {}
rp = os.path.join(V, "mutants", "results.json")
if os.path.exists(rp):
    res = json.load(open(rp))
rows = []
for k in sorted(exp):
    want = exp[k]
    got = res.get(k, {})
    kind = "pre-fix code" if k.startswith("prefix_") else "hand-written"
    if not want:
        rows.append("| `%s` | %s | - | not counted (fails the repository's own tests, or equivalent to the original) |" % (k, kind))
    else:
        rows.append("| `%s` | %s | %s | %s |" % (k, kind, ", ".join(want), ", ".join("%s: %s" % (c, got.get(c, "not re-run")) for c in want)))
t6 = "| patch (`mutants/`) | origin | expected to be caught by | last recorded result |\n|---|---|---|---|\n" + "\n".join(rows)
rows = []
for d in sorted(glob.glob(os.path.join(V, "seeded", "*"))):
    try:
        m = json.load(open(os.path.join(d, "meta.json")))
    except Exception:
        continue
    summ = (m.get("summary") or "").replace("|", "/").replace("\n", " ")
    need = (m.get("needs_to_manifest") or "").replace("|", "/").replace("\n", " ")
    rows.append("| `%s` | %s | %s | %s | %s |" % (os.path.basename(d), m["property"], summ[:220], need[:200], ", ".join("%s: %s" % kv for kv in m.get("checks_run", {}).items())))
t7 = "| seeded change | property | what it does | what it needs in order to manifest | checks run against it |\n|---|---|---|---|---|\n" + "\n".join(rows)
s = open(os.path.join(V, "DESIGN.md")).read()
begin6, end6 = "<!-- TABLE-14.6 -->", "<!-- /TABLE-14.6 -->"
begin7, end7 = "<!-- TABLE-14.7 -->", "<!-- /TABLE-14.7 -->"
def put(s, b, e, t):
    if b in s:
        return re.sub(re.escape(b) + ".*?" + re.escape(e), lambda m: b + "\n" + t + "\n" + e, s, flags=re.S)
    return s
s = put(s, begin6, end6, t6)
s = put(s, begin7, end7, t7)
open(os.path.join(V, "DESIGN.md"), "w").write(s)
print("tables written: %d mutants, %d seeded" % (len(exp), len(rows)))

# 14.3: the list of repaired defects is known_findings.json's "fixed" array
import json as _json, os as _os
_V = _os.path.dirname(_os.path.dirname(_os.path.abspath(__file__)))
_p = _os.path.join(_V, "DESIGN.md")
_d = open(_p).read()
_a, _b = _d.index("<!-- FIXED-LIST -->"), _d.index("<!-- /FIXED-LIST -->")
_fixed = _json.load(open(_os.path.join(_V, "known_findings.json")))["fixed"]
_d = _d[:_a] + "<!-- FIXED-LIST -->\n" + "\n".join("* `%s`" % f.replace("`", "'") for f in _fixed) + "\n" + _d[_b:]
open(_p, "w").write(_d)
