#!/usr/bin/env python3
"""tools/reseed.py [-j N] [<seeded-dir-name> ...]: re-confirm the kept seeded changes (/verif/seeded/<name>/) against the
CURRENT /repo tree, each in a scratch copy (never in /repo): the patch applies and builds, the existing suite passes with
it, its demonstration fails with it and passes without it, and the property's own check (and the related ones recorded in
meta.json) is run against it.  meta.json's checks_run is rewritten; a change whose demonstration no longer fails (a later
repair removed the manifestation) is reported as neutralised.  One line per change."""
import glob, json, os, re, shutil, subprocess, sys, tempfile
import concurrent.futures as cf
V = os.path.dirname(os.path.dirname(os.path.abspath(__file__)))
ENV = dict(os.environ, GOFLAGS="-mod=mod", GOPROXY="off", GOSUMDB="off", GOTOOLCHAIN="local")


def sh(cmd, cwd, timeout=1800):
    p = subprocess.run(cmd, cwd=cwd, env=ENV, shell=isinstance(cmd, str), stdout=subprocess.PIPE, stderr=subprocess.STDOUT, text=True, timeout=timeout)
    return p.returncode, p.stdout


def one(name):
    kd = os.path.join(V, "seeded", name)
    meta = json.load(open(os.path.join(kd, "meta.json")))
    cmd = meta["confirmed_here"]["demo_command"]
    pk = re.findall(r"\./[\w/.-]+", cmd)[-1].rstrip("/")
    demos = glob.glob(os.path.join(kd, "*.go"))
    res = {"name": name}
    s = tempfile.mkdtemp(prefix="vseed.", dir="/tmp")
    try:
        subprocess.run(["rsync", "-a", "--exclude", ".git", "/repo/", s + "/"], check=True)
        dest = os.path.join(s, pk.lstrip("./"))
        for f in demos:
            shutil.copy(f, dest)
        rc0, out0 = sh(cmd, s)
        res["demo_without_change"] = "passes" if rc0 == 0 else "FAILS: " + out0[-300:]
        rc, out = sh(["patch", "-p1", "-s", "--no-backup-if-mismatch", "-i", os.path.join(kd, "patch.diff")], s)
        if rc != 0:
            res["status"] = "STALE patch: " + out[-200:]
            return res
        rc, out = sh("go build ./...", s)
        if rc != 0:
            res["status"] = "NO-BUILD: " + out[-300:]
            return res
        rc1, out1 = sh(cmd, s)
        res["demo_with_change"] = "fails" if rc1 != 0 else "PASSES"
        for f in demos:
            os.remove(os.path.join(dest, os.path.basename(f)))
        rc, out = sh("go test -vet=off -count=1 ./... 2>&1 | grep -v 'no test files'", s)
        res["suite_with_change"] = "passes" if "FAIL" not in out else "FAILS: " + out[-300:]
        det = {}
        for cid in meta.get("checks_run", {meta["property"]: None}):
            e = dict(ENV, VERIF_REPO=s, VERIF_WORK=s + ".work", VERIF_OUT=s + ".out")
            p = subprocess.run([os.path.join(V, "check"), cid, "--tier", "quick"], env=e, capture_output=True, text=True)
            v = [l for l in p.stdout.splitlines() if l.startswith("VIOLATION")]
            det[cid] = "CAUGHT" if (p.returncode == 1 and v) else ("missed" if p.returncode == 0 else "cannot-run rc=%d %s" % (p.returncode, p.stderr[-200:].replace("\n", " | ")))
            shutil.rmtree(s + ".work", ignore_errors=True)
            shutil.rmtree(s + ".out", ignore_errors=True)
        res["detection"] = det
        res["own"] = det.get(meta["property"])
        meta["checks_run"] = det
        json.dump(meta, open(os.path.join(kd, "meta.json"), "w"), indent=1)
        return res
    finally:
        shutil.rmtree(s, ignore_errors=True)


def main():
    a = sys.argv[1:]
    j = 4
    if a and a[0] == "-j":
        j = int(a[1])
        a = a[2:]
    names = a or sorted(os.listdir(os.path.join(V, "seeded")))
    names = [n for n in names if os.path.exists(os.path.join(V, "seeded", n, "meta.json"))]
    with cf.ThreadPoolExecutor(max_workers=j) as ex:
        for r in ex.map(one, names):
            print(json.dumps(r), flush=True)


main()
