#!/bin/sh
# tools/sweep.sh <tier> <seed>... : run every check on the unchanged tree with several seeds; print one line per run
tier=$1; shift
cd "$(dirname "$0")/.."
for seed in "$@"; do
  for p in C01 C02 C03 C04 C05 C06 C07 C08 C09 C10 C11 C12 C13 C14 C15 C16 C17 C18 C19 C20; do
    s=$(date +%s)
    out=$(VERIF_SEED=$seed VERIF_WORK=$PWD/.work/sweep VERIF_OUT=$PWD/.work/sweep_out ./check $p --tier $tier 2>&1); rc=$?
    echo "seed=$seed $p rc=$rc $(( $(date +%s) - s ))s $(echo "$out" | grep -c '^VIOLATION') violations $(echo "$out" | grep -c '^KNOWN-FINDING') known"
    [ $rc -ne 0 ] && echo "$out" | tail -5 | cut -c1-300
  done
done
