#!/usr/bin/env python3
"""tools/mutants.py [-j N] [--tier quick] <patch>:<ID>[,<ID>...] ...   or   --all
Runs checks against scratch copies of /repo with one patch applied each (never touches /repo).
Prints one line per (patch, check): CAUGHT / missed / cannot-run.  Expectations: mutants/expect.json."""
import concurrent.futures as cf, json, os, shutil, subprocess, sys, tempfile
V = os.path.dirname(os.path.dirname(os.path.abspath(__file__)))
ENV = dict(os.environ, GOFLAGS="-mod=mod", GOPROXY="off", GOSUMDB="off", GOTOOLCHAIN="local")

def one(patch, ids, tier):
    s = tempfile.mkdtemp(prefix="vrepo.", dir="/tmp")
    res = []
    try:
        subprocess.run(["rsync", "-a", "--exclude", ".git", "/repo/", s + "/"], check=True)
        p = subprocess.run(["patch", "-p1", "-s", "-i", os.path.abspath(patch)], cwd=s, capture_output=True, text=True)
        if p.returncode != 0:
            return [(patch, i, "patch-failed") for i in ids]
        b = subprocess.run(["go", "build", "./..."], cwd=s, env=ENV, capture_output=True, text=True)
        if b.returncode != 0:
            return [(patch, i, "no-build") for i in ids]
        for i in ids:
            e = dict(ENV, VERIF_REPO=s, VERIF_WORK=s + ".work." + i, VERIF_OUT=s + ".out")
            r = subprocess.run([os.path.join(V, "check"), i, "--tier", tier], env=e, capture_output=True, text=True)
            v = [l for l in r.stdout.splitlines() if l.startswith("VIOLATION")]
            st = "CAUGHT" if (r.returncode == 1 and v) else ("missed" if r.returncode == 0 else "cannot-run rc=%d" % r.returncode)
            if st.startswith("cannot"):
                st += " " + r.stderr[-300:].replace("\n", " | ")
            res.append((patch, i, st))
            shutil.rmtree(s + ".work." + i, ignore_errors=True)
    finally:
        shutil.rmtree(s, ignore_errors=True); shutil.rmtree(s + ".out", ignore_errors=True)
    return res

def main():
    a = sys.argv[1:]; j = 4; tier = "quick"; jobs = []; record = False
    while a:
        x = a.pop(0)
        if x == "-j": j = int(a.pop(0))
        elif x == "--tier": tier = a.pop(0)
        elif x == "--record": record = True
        elif x == "--all":
            exp = json.load(open(os.path.join(V, "mutants", "expect.json")))
            jobs += [(os.path.join(V, "mutants", k), v) for k, v in sorted(exp.items())]
        else:
            p, ids = x.split(":"); jobs.append((p, ids.split(",")))
    results = {}
    with cf.ThreadPoolExecutor(max_workers=j) as ex:
        for rs in ex.map(lambda t: one(t[0], t[1], tier), jobs):
            for patch, i, st in rs:
                print("%-55s %-4s %s" % (os.path.basename(patch), i, st), flush=True)
                results.setdefault(os.path.basename(patch), {})[i] = st.split()[0]
    if record:
        rp = os.path.join(V, "mutants", "results.json")
        old = json.load(open(rp)) if os.path.exists(rp) else {}
        old.update(results)
        json.dump(old, open(rp, "w"), indent=1, sort_keys=True)
main()
