#!/usr/bin/env python3
"""Regenerates MANIFEST.json from the table below (single source of truth for the interface)."""
import json, os
V = os.path.dirname(os.path.dirname(os.path.abspath(__file__)))
MC = "model_checking"
CHECKS = {
 "C01": ("TLC enumerates a bounded universe of (pattern, message, bindings) completely, checks the reference matcher against the declarative soundness statement, and exports every case; the real match.Match is run on every exported case and on seeded deep cases; TLC (Trace_Match) evaluates Sound on every recorded result.",
         "8.C01", "bounded universe depth<=1 (quick) / <=2 reduced alphabet (thorough); deep cases to depth 6 are a seeded sample; encoder classification of '?'-strings and number encoding (halves) trusted",
         "TLA+ reference semantics (Match.tla) + TLC-enumerated universe replayed into match.Match + TLC trace judge"),
 "C02": ("Same universe: for the exact class the real result set must equal the reference matcher's embeddings (itself cross-checked by TLC against brute-force assignments); planted assignments with decoys must be found (PlantedOK re-checked in TLA+).",
         "8.C02", "as C01; planted cases are a seeded sample judged only when PlantedOK holds",
         "TLA+ reference matcher (Embeds) + exhaustive small universe + planted-instance traces judged by TLC"),
 "C03": ("Every case is evaluated repeatedly with all maps rebuilt in permuted insertion orders and concurrently on one shared value; TLC judges equality of result bags and outcomes, unchanged arguments, independence of returned maps.",
         "8.C03", "map iteration orders reached by permuted construction x repetition (not enumerable from outside the runtime); concurrency sampled by the Go scheduler",
         "TLC trace judge (Pure) over repeated/permuted/concurrent evaluations of the real matcher"),
 "C04": ("Machine.tla defines StepOutcomes, the relation of allowed results of one step (action, error routing, ordered branches, guards, @var targets), over an action language rendered as ECMAScript and as native Go actions; every recorded result of the real Spec.Step (and every stride of recorded walks) must be a member, as judged by TLC.",
         "8.C04", "TLC enumerates the universe of node shapes (MC_Step: 9 actions x 2 renderings x 2 branching types x 0..1 branches (quick) / 0..2 (thorough, every 4th exported) x 3 error settings x 3 states x 3 pending) and every exported case is driven; plus seeded generation over a wider vocabulary; branch patterns restricted to the fragment where the reference matcher is exact; nil-bindings states judged for totality only",
         "TLA+ step relation (Machine.tla) + TLC trace judge over recorded Spec.Step/Walk calls"),
 "C05": ("Recorded walks of the real Spec.Walk are judged by TLC: ordered exactly-once consumption (prefix), step bound, exact remainder on limit/breakpoint, stride continuity, quiescence and no discard at a consuming node on Done, truthful breakpoints, every stride in the step relation, and equality of final state and emissions across every split into consecutive batches.",
         "8.C05", "MC_Walk: TLC explores the Walk state machine over all 14,700 configurations (7x7 deterministic node shapes, message sequences <=3 over two messages, limits 0..4, breakpoint on/off) with the accounting properties as invariants, and every configuration is walked by the real engine in every split; plus seeded specs with 2-3 nodes and <=4 messages; split equivalence claimed for deterministic walks not stopped by limit/breakpoint",
         "TLA+ Walk state machine model-checked by TLC (MC_Walk) + every configuration replayed into Spec.Walk + TLC trace judge"),
 "C06": ("Deep snapshots of every argument before/after each Step/Walk, map identity of returned bindings, and a second identical call on fresh copies are recorded; TLC judges Frame and Repeatable (where the step relation is a singleton).",
         "8.C06", "generation biased to failing actions, rejecting guards, error node, limit; spec snapshot covers what the engine could write",
         "TLC trace judge (frame conditions / repeatability) over recorded Step/Walk calls"),
 "C07": ("Panic trap and watchdog around every Step/Walk over combinations of failing behaviours (throw, timeout, null/scalar return, unserialisable emission, native error with/without partial execution), permanent bindings, nil bindings, unknown nodes, nil control; TLC requires outcome 'returned' and, where the model says a failure occurred, a result inside the step relation (error returned or error-node transition carrying error text, lastNode, lastBindings).",
         "8.C07", "document loading/compiling totality (null nodes, unknown interpreters, YAML) is covered by the C13 loader check when built; hang = no return within 8 s",
         "TLC trace judge (outcome returned + failure surfaced per Machine.tla) over generated failure combinations"),
 "C08": ("Op-lists that emit and then fail at every position (throw, timeout, bad return, unserialisable emission), as actions and guards, at every position of walks: the recorded Stride.Emitted / Walked.DoEmitted must equal the model's emission sequence (nothing from failed actions or from guards, order kept).",
         "8.C08", "crew-level reporting of emissions is covered by the C14 check when built; native partial executions are the named deviation NativePartial (outside the quantifier)",
         "TLA+ action-language semantics (Actions.tla: atomic emission) + TLC trace judge"),
 "C09": ("Persist is a stuttering step of the reference machine (a state is plain JSON data); recorded histories are run twice on the real engine, one run marshalling/unmarshalling the State at chosen message boundaries; TLC judges PersistUnobservable (states and emissions equal step by step), for deterministic specs (DetSpec re-checked in TLA+).",
         "8.C09", "histories of <=4 messages with save points at every subset sampled; values: integers, fractions, nested arrays/objects, nulls, error states with lastBindings; representation differences are observed behaviourally",
         "TLA+ Persist-as-stuttering (Trace_Persist.tla) + TLC judge over paired runs of the real engine"),
 "C18": ("Actions and guards (native and ECMAScript) that delete, overwrite, replace wholesale, return null, fail or reject, over states with permanent and ordinary bindings: TLC checks PermanentKept on every recorded result and that no call crashed.",
         "8.C18", "seeded generation biased to permanent bindings; permanent names classified by the encoder",
         "TLA+ Restore/PermanentKept (Actions.tla) + TLC trace judge over recorded steps"),
 "C19": ("Expect.tla defines SpecPass and an implementation-shaped model of the reader loop; TLC enumerates all one-step sessions (<=2 outputs x <=3 lines) and two-step sessions over a small vocabulary, checks the documented loop sound on the model, and exports them; the real Session.Run is run on them against a line-echo subprocess; TLC judges toolPassed => SpecPass.",
         "8.C19", "quick runs a stratified sample (3,100 sessions) of the enumerated universe, thorough all one-step sessions plus 30,000 two-step ones; echo subprocess = cat; only the false-pass direction is judged",
         "TLA+ session semantics (Expect.tla) + TLC-enumerated sessions replayed into the real tool + TLC trace judge"),
 "C20": ("SpecGraph.tla defines the facts of a spec graph (missing targets, terminals, orphans, counts, interpreters) and the content of a faithful rendering; TLC enumerates all graphs with <=3 nodes over a small vocabulary and exports them; real compiled specs are analysed and rendered (panic trap), the renderings parsed back, and TLC judges set/count equality and totality.",
         "8.C20", "quick judges a 12,000-graph sample of the 84,885 enumerated graphs plus 4,000 seeded larger graphs, thorough all of them plus 80,000; non-identifier names and empty targets are judged for totality only; the strict Graphviz/Mermaid subset parsers are trusted",
         "TLA+ graph facts (SpecGraph.tla) + TLC-enumerated graphs replayed into tools.Analyze/Dot/Mermaid + TLC trace judge"),
 "C14": ("CrewProp.tla defines who is addressed by a message and the accounting of emissions; histories over recorder crews are driven through the real sio.Crew.ProcessMsg; presentations and dequeues are observed at verif-tag hooks and cross-checked with the machines' own logs; TLC judges DeliveredExactlyOnce, EmissionsAccounted, BreadthFirst per processed message (external and re-injected).",
         "8.C14", "seeded histories (sio: 1-4 machines, whole routing vocabulary, emission depth <=2; mcrew: recorder machines with an acyclic emission graph, reserved names, non-string targets, asynchronous re-processing observed at hooks); cmd/mdb not driven",
         "TLA+ crew property spec (CrewProp.tla) + hook-recorded traces of the real crew judged by TLC"),
 "C15": ("Histories of captain operations (create, replace state, replace spec, delete, re-create; also emitted by machines) and ordinary messages are driven through the real crew; after every message the reported changes are folded into a shadow store (as sio.Stdio does) and compared with the live crew (ShadowEqualsLive), and at every boundary a second real crew is booted from the store and fed the rest (RestartEquivalent); TLC judges.",
         "8.C15", "seeded histories over 2 machine ids and 2 spec versions, 2-8 messages, restart at every boundary; store records pass through JSON",
         "TLA+ shadow-store/restart predicates (CrewProp.tla) + recorded histories of the real crew judged by TLC"),
 "C16": ("McrewService.tla models the service's critical sections (lock, memory, bolt store, fault toggle); TLC explores every interleaving and fault position for six client scenarios, checks MemEqualsStore on the shape that mirrors the code, and exports the behaviours of the unconstrained 'split' shape as gate schedules; the driver, compiled into cmd/mcrew by overlay, replays them with the verif hooks as gates, runs sequential fault histories (bolt handle closed/reopened at every position) and free concurrent clients; TLC (Trace_Service) searches a linearization of every recorded history against ServiceProp and checks mem = store at quiescent snapshots.",
         "8.C16", "<=4 clients with one operation each in the gated scenarios (quick replays a 480-schedule sample, thorough all ~6,000 plus the -race build); interleavings finer than the hook points and inside bbolt are not controlled; asynchronous re-processing of emissions not covered",
         "implementation-shaped TLA+ model explored by TLC -> gate schedules replayed on the real service -> TLC linearizability trace judge"),
 "C17": ("Timers.tla models the timer map, requester operations and per-timer goroutines (wait/select/emit/cleanup); TLC explores all interleavings over ids and timer generations, checks CancelledNeverFires, AtMostOnce, PendingSet, IdFree on the shape that mirrors the code, and exports complete behaviours as gate schedules; both real implementations are driven (mcrew by an overlay driver inside cmd/mcrew, sio through a real crew's timers machine) with the verif hooks as gates, with requests issued from inside the firing handler, free-running stress, restart from the reported store (sio) and the race detector as a sensor; TLC (Trace_Timers) searches a linearization of every recorded history against the timer lifecycle of TimersProp.",
         "8.C17", "one id and two timer generations in the gated schedules (<=9 steps), two ids in stress; Go's select cannot be gated (repetition instead); wall-clock tolerances: 30 ms short delay, final snapshot >=100 ms after the last request; sio requests have no reply, so acceptance is read from the timers machine's error binding (named deviations SioMakeOnPendingCancels, SioRequestIgnored); one open known finding (sio data races)",
         "implementation-shaped TLA+ model explored by TLC -> gate schedules replayed on both timer implementations -> TLC linearizability trace judge (TimersProp)"),
 "C10": ("Interp.tla models one runtime per execution with a pooled-runtime negative control that TLC must refute; the real interpreter runs sequences of polluting scripts (globals, prototypes, JSON/Object functions, environment members, nested bindings and props) followed by and concurrent with probe scripts on shared compiled programs; TLC judges probes pristine (equal to a solo run) and the caller's bindings/props unchanged.",
         "8.C10", "eight polluter shapes, 1-3 per case, 8-16 concurrent goroutines; -race build as a sensor in the thorough tier",
         "TLA+ isolation model (Interp.tla, negative control refuted by TLC) + recorded polluter/probe executions judged by TLC"),
 "C11": ("ExecTime.tla models VM, watcher goroutine and context with fairness (Prompt, NoLeak as temporal properties; 'no watcher' and 'no cancel()' negative controls must be refuted); the real interpreter runs looping scripts under deadlines from 0 to 300 ms, cancellation at arbitrary moments, 1-64 concurrent executions, directly and through Spec.Walk, and terminating scripts under contexts that outlive the call; TLC judges promptness within an explicit slack, the timeout error and its routing to the error node, and goroutine counts.",
         "8.C11", "wall-clock: slack 500 ms (<=4 concurrent) / 2.5 s (<=64) against a 6 s watchdog; goroutine leak = count not back within 400 ms",
         "TLA+ explicit watcher/interrupt model with liveness (ExecTime.tla) + timed traces of the real interpreter judged by TLC"),
 "C12": ("Specter.tla models the atomically swapped spec pointer (a torn-update negative control must be refuted); concurrent walks of distinct machine states over one compiled spec object (native and ECMAScript actions and guards, failing and succeeding) run while an UpdatableSpec is swapped between versions, under GOMAXPROCS 2/4/16, plain and -race; TLC (Trace_Specter) searches a linearization in which every walk returns exactly the result that ONE version current between its call and return gives alone; spec snapshots must be unchanged; every race report is a violation.",
         "8.C12", "schedules are whatever the Go runtime produces (not gated); the race detector is a sensor, absence of a report covers only the executions driven; solo results come from the real engine",
         "TLA+ atomic-pointer model + TLC linearizability trace judge over concurrent walks/swaps of the real engine, race detector as sensor"),
 "C13": ("Loader.tla states that every rendering of an abstract spec denotes the same spec; each generated abstract spec is rendered as Go structures, JSON, YAML, with patterns inline or as JSON text, compiled once/twice/forced, compiled-serialised-reloaded and through sio's loader (inline, file:// JSON, file:// YAML); the same message sequences are walked over every variant; TLC judges SameBehaviour, CompileOutcome (unknown interpreter / branching type / pattern syntax rejected at compile time) and that malformed documents yield a spec or an error (the document half of C07).",
         "8.C13", "seeded specs of 3 nodes with patterns of every JSON shape; three message sequences per spec; mcrew's GetSpec path not included",
         "TLA+ rendering-equivalence spec (Loader.tla) + TLC trace judge over behaviours of every loaded variant"),
}
def main():
    checks = []
    for pid, (text, ref, note, tech) in sorted(CHECKS.items()):
        checks.append({"property_id": pid, "quick_cmd": "./check %s --tier quick" % pid, "thorough_cmd": "./check %s --tier thorough" % pid,
                       "evidence_file": "evidence/%s.json" % pid, "replay_cmd_template": "./check %s --replay {path}" % pid,
                       "engine": "tlc", "level_claimed": {"category": MC, "text": text, "design_ref": ref}, "level_note": note, "technique": tech})
    props = [json.loads(l)["id"] for l in open(os.path.join(V, "properties.jsonl")) if l.strip()]
    na = [{"property_id": p, "reason": "check not built yet (work in progress; see DESIGN.md section 13)"} for p in props if p not in CHECKS]
    m = {"version": 1,
         "setup_cmd": "./setup.sh",
         "hooks": {"guard": "verif", "enable": "go build/test -tags verif (the checks build their drivers from /repo's working tree with this tag)",
                   "baseline_off_cmd": "cd /repo && GOFLAGS=-mod=mod GOPROXY=off go test -vet=off -count=1 ./...",
                   "source_commits": HOOK_COMMITS, "add_only": True},
         "engines": [{"name": "tlc", "path": "spec/", "serves_properties": sorted(CHECKS), "kind_free_text": "TLA+ specifications checked by TLC 1.8.0; Go drivers in harness/ record traces of the real code that TLC trace specs judge"}],
         "checks": checks,
         "not_applicable": na,
         "notes": "All verdicts come from behaviour recorded on a fresh build of /repo's working tree and judged by TLC; see DESIGN.md."}
    json.dump(m, open(os.path.join(V, "MANIFEST.json"), "w"), indent=1)
HOOK_COMMITS = ["8428979"]
main()
