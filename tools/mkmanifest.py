#!/usr/bin/env python3
"""Regenerates MANIFEST.json from the table below (single source of truth for the interface)."""
import json, os
V = os.path.dirname(os.path.dirname(os.path.abspath(__file__)))
MC = "model_checking"
CHECKS = {
 "C01": ("TLC enumerates a bounded universe of (pattern, message, bindings) completely, checks the reference matcher against the declarative soundness statement, and exports every case; the real match.Match is run on every exported case and on seeded deep cases; TLC (Trace_Match) evaluates Sound on every recorded result.",
         "8.C01", "bounded universe depth<=1 (quick) / <=2 reduced alphabet (thorough); deep cases to depth 6 are a seeded sample; encoder classification of '?'-strings and number encoding (halves) trusted",
         "TLA+ reference semantics (Match.tla) + TLC-enumerated universe replayed into match.Match + TLC trace judge"),
 "C02": ("Same universe: for the exact class the real result set must equal the reference matcher's embeddings (itself cross-checked by TLC against brute-force assignments); planted assignments with decoys must be found (PlantedOK re-checked in TLA+).",
         "8.C02", "as C01; planted cases are a seeded sample judged only when PlantedOK holds",
         "TLA+ reference matcher (Embeds) + exhaustive small universe + planted-instance traces judged by TLC"),
 "C03": ("Every case is evaluated repeatedly with all maps rebuilt in permuted insertion orders and concurrently on one shared value; TLC judges equality of result bags and outcomes, unchanged arguments, independence of returned maps.",
         "8.C03", "map iteration orders reached by permuted construction x repetition (not enumerable from outside the runtime); concurrency sampled by the Go scheduler",
         "TLC trace judge (Pure) over repeated/permuted/concurrent evaluations of the real matcher"),
}
def main():
    checks = []
    for pid, (text, ref, note, tech) in sorted(CHECKS.items()):
        checks.append({"property_id": pid, "quick_cmd": "./check %s --tier quick" % pid, "thorough_cmd": "./check %s --tier thorough" % pid,
                       "evidence_file": "evidence/%s.json" % pid, "replay_cmd_template": "./check %s --replay {path}" % pid,
                       "engine": "tlc", "level_claimed": {"category": MC, "text": text, "design_ref": ref}, "level_note": note, "technique": tech})
    props = [json.loads(l)["id"] for l in open(os.path.join(V, "properties.jsonl")) if l.strip()]
    na = [{"property_id": p, "reason": "check not built yet (work in progress; see DESIGN.md section 13)"} for p in props if p not in CHECKS]
    m = {"version": 1,
         "setup_cmd": "./setup.sh",
         "hooks": {"guard": "verif", "enable": "go build/test -tags verif (the checks build their drivers from /repo's working tree with this tag)",
                   "baseline_off_cmd": "cd /repo && GOFLAGS=-mod=mod GOPROXY=off go test -vet=off -count=1 ./...",
                   "source_commits": HOOK_COMMITS, "add_only": True},
         "engines": [{"name": "tlc", "path": "spec/", "serves_properties": sorted(CHECKS), "kind_free_text": "TLA+ specifications checked by TLC 1.8.0; Go drivers in harness/ record traces of the real code that TLC trace specs judge"}],
         "checks": checks,
         "not_applicable": na,
         "notes": "All verdicts come from behaviour recorded on a fresh build of /repo's working tree and judged by TLC; see DESIGN.md."}
    json.dump(m, open(os.path.join(V, "MANIFEST.json"), "w"), indent=1)
HOOK_COMMITS = []
main()
