#!/usr/bin/env python3
"""tools/seeds.py [<ID> ...]: take the changes written by independent sub-agents under /tmp/seedout/<ID>/change<k>/,
confirm each one in a scratch copy of /repo (applies, builds, passes the whole existing suite, demonstration fails with the
change and passes without it), run the property's check(s) against it, and keep it as /verif/seeded/<ID>-<k>/
(patch.diff, demonstration, meta.json).  /repo itself is never touched."""
import glob, json, os, re, shutil, subprocess, sys, tempfile
V = os.path.dirname(os.path.dirname(os.path.abspath(__file__)))
ROOT = os.environ.get("SEED_ROOT", "/tmp/seedout")      # where the sub-agents wrote
TAG = os.environ.get("SEED_TAG", "")                     # e.g. "r2-": kept as seeded/<ID>-r2-<k>
ENV = dict(os.environ, GOFLAGS="-mod=mod", GOPROXY="off", GOSUMDB="off", GOTOOLCHAIN="local")
EXTRA = {"C01": ["C01", "C02", "C03"], "C02": ["C02", "C01"], "C03": ["C03", "C12"], "C04": ["C04"], "C05": ["C05", "C04"], "C06": ["C06"],
         "C07": ["C07", "C13"], "C08": ["C08", "C04"], "C09": ["C09"], "C10": ["C10"], "C11": ["C11"], "C12": ["C12", "C03"], "C13": ["C13"],
         "C14": ["C14"], "C15": ["C15"], "C16": ["C16"], "C17": ["C17"], "C18": ["C18", "C07"], "C19": ["C19"], "C20": ["C20"]}

def sh(cmd, cwd, timeout=900):
    p = subprocess.run(cmd, cwd=cwd, env=ENV, shell=isinstance(cmd, str), stdout=subprocess.PIPE, stderr=subprocess.STDOUT, text=True, timeout=timeout)
    return p.returncode, p.stdout

def demo_cmd(d):
    txt = open(os.path.join(d, "demo.txt")).read() if os.path.exists(os.path.join(d, "demo.txt")) else ""
    m = re.search(r"(go test [^\n`]*)", txt)
    cmd = m.group(1).strip().rstrip(".") if m else None
    pk = None
    if cmd:
        mm = re.findall(r"\./[\w/.-]+", cmd)
        pk = mm[-1].rstrip("/") if mm else None
    return cmd, pk, txt

def one(pid, d, k):
    res = {"property": pid, "source_dir": d}
    s = tempfile.mkdtemp(prefix="vseed.", dir="/tmp")
    try:
        subprocess.run(["rsync", "-a", "--exclude", ".git", "/repo/", s + "/"], check=True)
        patch = os.path.join(d, "patch.diff")
        cmd, pk, txt = demo_cmd(d)
        demos = [f for f in glob.glob(os.path.join(d, "*.go"))]
        if not cmd or not pk or not demos:
            res["status"] = "incomplete (no demo command / files)"; return res
        dest = os.path.join(s, pk.lstrip("./"))
        for f in demos:
            shutil.copy(f, dest)
        rc0, out0 = sh(cmd, s)
        res["demo_without_change"] = "passes" if rc0 == 0 else "FAILS: " + out0[-300:]
        rc, out = sh(["patch", "-p1", "-s", "-i", patch], s)
        if rc != 0:
            res["status"] = "patch does not apply: " + out[-200:]; return res
        rc, out = sh("go build ./...", s)
        res["builds"] = rc == 0
        rc1, out1 = sh(cmd, s)
        res["demo_with_change"] = "fails" if rc1 != 0 else "PASSES"
        for f in demos:
            os.remove(os.path.join(dest, os.path.basename(f)))
        rc, out = sh("go test -vet=off -count=1 ./... 2>&1 | grep -v 'no test files'", s)
        res["suite_with_change"] = "passes" if "FAIL" not in out else "FAILS: " + out[-300:]
        ok = res["builds"] and rc0 == 0 and rc1 != 0 and res["suite_with_change"] == "passes"
        # A change that was confirmed earlier (kept under seeded/) and whose demonstration now passes: a later repair of the
        # repository removed the manifestation the demonstration uses.  It is still run against the checks and stays on
        # record, marked as such.
        kept = os.path.join(V, "seeded", "%s-%s%d" % (pid, TAG, k), "meta.json")
        neutralised = (not ok) and res["builds"] and rc0 == 0 and rc1 == 0 and res["suite_with_change"] == "passes" and os.path.exists(kept)
        res["confirmed"] = ok
        res["neutralised"] = neutralised
        det = {}
        if ok or neutralised:
            for cid in EXTRA.get(pid, [pid]):
                e = dict(ENV, VERIF_REPO=s, VERIF_WORK=s + ".work", VERIF_OUT=s + ".out")
                p = subprocess.run([os.path.join(V, "check"), cid, "--tier", os.environ.get("SEED_TIER", "quick")], env=e, capture_output=True, text=True)
                v = [l for l in p.stdout.splitlines() if l.startswith("VIOLATION")]
                det[cid] = "CAUGHT" if (p.returncode == 1 and v) else ("missed" if p.returncode == 0 else "cannot-run rc=%d %s" % (p.returncode, p.stderr[-200:].replace("\n", " | ")))
                shutil.rmtree(s + ".work", ignore_errors=True); shutil.rmtree(s + ".out", ignore_errors=True)
        res["detection"] = det
        # keep it
        if neutralised:
            m0 = json.load(open(kept))
            m0["checks_run"] = det
            m0["confirmed_here"]["demo_with_change"] = "passes on the current tree: a later repair of the repository removed the manifestation the demonstration uses (it failed when the change was written)"
            json.dump(m0, open(kept, "w"), indent=1)
        if ok:
            kd = os.path.join(V, "seeded", "%s-%s%d" % (pid, TAG, k))
            os.makedirs(kd, exist_ok=True)
            shutil.copy(patch, kd)
            for f in demos:
                shutil.copy(f, kd)
            if os.path.exists(os.path.join(d, "demo.txt")):
                shutil.copy(os.path.join(d, "demo.txt"), kd)
            meta = {}
            try:
                meta = json.load(open(os.path.join(d, "meta.json")))
            except Exception:
                pass
            json.dump({"property": pid, "author": "independent sub-agent (given only the property text and a scratch worktree)",
                       "summary": meta.get("summary"), "needs_to_manifest": meta.get("needs_to_manifest"),
                       "confirmed_here": {"applies_and_builds": True, "existing_suite_with_change": "passes", "demo_command": cmd,
                                          "demo_with_change": "fails", "demo_without_change": "passes"},
                       "checks_run": det}, open(os.path.join(kd, "meta.json"), "w"), indent=1)
        return res
    finally:
        shutil.rmtree(s, ignore_errors=True)

def main():
    ids = sys.argv[1:] or sorted(os.path.basename(p) for p in glob.glob(ROOT + "/C*"))
    import concurrent.futures as cf
    jobs = []
    for pid in ids:
        for d in sorted(glob.glob("%s/%s/change*" % (ROOT, pid))):
            if os.path.exists(os.path.join(d, "patch.diff")):
                jobs.append((pid, d, int(re.sub(r"\D", "", os.path.basename(d)) or 1)))
    with cf.ThreadPoolExecutor(max_workers=int(os.environ.get("SEED_J", "4"))) as ex:
        for r in ex.map(lambda j: one(*j), jobs):
            print(json.dumps(r), flush=True)
main()
