#!/bin/sh
# Offline setup: nothing here depends on /repo's sources.  Verifies the tools and
# pre-parses every specification with SANY.
set -e
cd "$(dirname "$0")"
command -v tlc >/dev/null && command -v go >/dev/null && command -v python3 >/dev/null
mkdir -p .work/sany evidence
cp spec/*.tla .work/sany/
cd .work/sany
for f in *.tla; do
  tla-sany "$f" > sany.log 2>&1 || { cat sany.log; echo "SANY failed on $f"; exit 1; }
done
echo "setup ok"
