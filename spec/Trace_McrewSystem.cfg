SPECIFICATION Spec
CONSTANTS Cfg <- TheCfg
 EmitOnFailedWrite = FALSE
INVARIANT Done
POSTCONDITION Accepted
CHECK_DEADLOCK FALSE
