SPECIFICATION Spec
CONSTANTS Ids = {1}
 MaxU = 2
 Shape = "early"
INVARIANT Collect
CONSTRAINT Bound
POSTCONDITION Post
CHECK_DEADLOCK FALSE
