------------------------------- MODULE Interp -------------------------------
(***************************************************************************)
(* C10.  ECMAScript executions are isolated from the host and from each    *)
(* other.  Model: every execution e gets its own runtime, created pristine *)
(* (globals, built-in prototypes, the environment object with copies of    *)
(* the caller's bindings and step properties).  A polluting script's ops   *)
(* change runtime[e] only; a probe reads runtime[e].                       *)
(*                                                                         *)
(* Pooled = TRUE is a negative control: executions share one runtime (a    *)
(* natural optimisation); TLC must then find the leak.                     *)
(***************************************************************************)
EXTENDS Naturals, FiniteSets, Sequences, TLC
CONSTANTS Execs,      \* execution ids
          Script,     \* Script[e] : sequence of ops, each in Ops
          Pooled
Ops == {"defglobal", "patchproto", "replaceenv", "mutatebindings", "mutateprops", "probe"}
Pristine == [globals |-> "clean", protos |-> "clean", env |-> "clean", bs |-> "orig", props |-> "orig"]

VARIABLES rt, pool, pc, obs, callerBs, callerProps
vars == <<rt, pool, pc, obs, callerBs, callerProps>>

Init == /\ rt = [e \in Execs |-> Pristine] /\ pool = Pristine /\ pc = [e \in Execs |-> 0]
        /\ obs = {} /\ callerBs = "orig" /\ callerProps = "orig"

Cur(e) == IF Pooled THEN pool ELSE rt[e]
Put(e, r) == IF Pooled THEN pool' = r /\ UNCHANGED rt ELSE rt' = [rt EXCEPT ![e] = r] /\ UNCHANGED pool

\* a fresh runtime is created when the execution starts: copies of the caller's data go in
Start(e) == /\ pc[e] = 0 /\ pc' = [pc EXCEPT ![e] = 1]
            /\ (IF Pooled THEN UNCHANGED <<rt, pool>>
                ELSE rt' = [rt EXCEPT ![e] = [Pristine EXCEPT !.bs = callerBs, !.props = callerProps]] /\ UNCHANGED pool)
            /\ UNCHANGED <<obs, callerBs, callerProps>>

Step(e) ==
  /\ pc[e] >= 1 /\ pc[e] <= Len(Script[e])
  /\ LET op == Script[e][pc[e]] r == Cur(e) IN
     /\ CASE op = "defglobal"      -> Put(e, [r EXCEPT !.globals = "polluted"]) /\ UNCHANGED obs
          [] op = "patchproto"     -> Put(e, [r EXCEPT !.protos = "polluted"]) /\ UNCHANGED obs
          [] op = "replaceenv"     -> Put(e, [r EXCEPT !.env = "polluted"]) /\ UNCHANGED obs
          [] op = "mutatebindings" -> Put(e, [r EXCEPT !.bs = "mutated"]) /\ UNCHANGED obs
          [] op = "mutateprops"    -> Put(e, [r EXCEPT !.props = "mutated"]) /\ UNCHANGED obs
          [] op = "probe"          -> obs' = obs \cup {<<e, r>>} /\ UNCHANGED <<rt, pool>>
     /\ pc' = [pc EXCEPT ![e] = @ + 1]
     /\ UNCHANGED <<callerBs, callerProps>>

Next == \E e \in Execs : Start(e) \/ Step(e)
Spec == Init /\ [][Next]_vars

\* whatever ran before or beside it, a probe sees pristine globals, prototypes and environment,
\* and the caller's data as the caller holds it
ProbesPristine == \A o \in obs : /\ o[2].globals = "clean" /\ o[2].protos = "clean" /\ o[2].env = "clean"
                                 /\ (\E i \in 1..Len(Script[o[1]]) : Script[o[1]][i] \in {"mutatebindings", "mutateprops"})
                                      \/ (o[2].bs = "orig" /\ o[2].props = "orig")
CallerIntact == callerBs = "orig" /\ callerProps = "orig"
=============================================================================
