SPECIFICATION Spec
CONSTANTS Cfg <- TheCfg
 Wedge = TRUE
 MakeOnPending = "replace"
 FireDropsBs = FALSE
INVARIANT Done
POSTCONDITION Accepted
CHECK_DEADLOCK FALSE
