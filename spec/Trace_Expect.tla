---------------------------- MODULE Trace_Expect ----------------------------
(***************************************************************************)
(* Judge for recorded verdicts of the real tools/expect Session.Run (C19): *)
(* the tool may pass a session only if SpecPass holds.                     *)
(***************************************************************************)
EXTENDS Expect, Findings, Json

Trace == ndJsonDeserialize("cases.ndjson")
VARIABLES l, bad, stats
vars == <<l, bad, stats>>

\* (an output's guard is shown every candidate of its pattern until it accepts one, as a machine's branch does: sessions
\*  whose patterns match a line in several ways are judged like all others)
Judgeable(c) == \A k \in DOMAIN c.steps : \A i \in DOMAIN c.steps[k].outs : InFragment(c.steps[k].outs[i].pat)
Labels(c) ==
  (IF c.verdict = "pass" /\ Judgeable(c) /\ ~SpecPass(c.steps) THEN {"false-pass"} ELSE {})
  \cup (IF c.verdict = "panic" THEN {"crash"} ELSE {})

Init == l = 1 /\ bad = <<>> /\ stats = [passed |-> 0, failed |-> 0, specpass |-> 0, spuriousfail |-> 0]
Next ==
  /\ l <= Len(Trace)
  /\ l' = l + 1
  /\ LET c == Trace[l] lab == Labels(c) sp == SpecPass(c.steps) IN
     /\ bad' = (IF lab = {} THEN bad ELSE Append(bad, [id |-> c.id, line |-> l, c19 |-> lab, sigs |-> ExpectSigs(c)]))
     /\ stats' = [passed |-> stats.passed + (IF c.verdict = "pass" THEN 1 ELSE 0),
                  failed |-> stats.failed + (IF c.verdict = "fail" THEN 1 ELSE 0),
                  specpass |-> stats.specpass + (IF sp THEN 1 ELSE 0),
                  spuriousfail |-> stats.spuriousfail + (IF sp /\ c.verdict = "fail" THEN 1 ELSE 0)]
Spec == Init /\ [][Next]_vars
Done == (l = Len(Trace) + 1) =>
          /\ ndJsonSerialize("judge_bad.ndjson", bad)
          /\ ndJsonSerialize("judge_stats.ndjson", <<[stats |-> stats, lines |-> Len(Trace)]>>)
Accepted == TLCGet("stats").diameter - 1 = Len(Trace)
=============================================================================
