SPECIFICATION Spec
CONSTANT Level = 2
INVARIANT RefSound
INVARIANT RefExact
INVARIANT Emit
CHECK_DEADLOCK FALSE
