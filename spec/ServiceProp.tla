---------------------------- MODULE ServiceProp ----------------------------
(***************************************************************************)
(* C16, property level.  The sequential meaning of the mcrew service's     *)
(* operations over (mem, store) with a store that may be failing:          *)
(*   - an operation whose write fails changes nothing;                     *)
(*   - memory advances only together with a successful write, so           *)
(*     mem = store whenever no operation is in flight (MemEqualsStore);    *)
(*   - concurrent requests are serialised: a recorded history must be      *)
(*     linearizable to this sequential specification (Trace_Service).      *)
(* A machine's state is abstracted to the sequence of messages it has      *)
(* processed; mem and store are functions from the present machine ids.    *)
(***************************************************************************)
EXTENDS Integers, Sequences, FiniteSets, TLC

Without(f, k) == [x \in DOMAIN f \ {k} |-> f[x]]
With(f, k, v) == [x \in DOMAIN f \cup {k} |-> IF x = k THEN v ELSE f[x]]
NoWalks == [x \in {} |-> 0]

\* Apply(o, mem, store, healthy) = [res, walks, mem, store]
Targets(o, mem) == IF o.mid = "*" THEN DOMAIN mem ELSE {o.mid} \cap DOMAIN mem
Apply(o, mem, store, healthy) ==
  CASE o.kind = "add" ->
         IF o.mid \in DOMAIN mem THEN [res |-> "exists", walks |-> NoWalks, mem |-> mem, store |-> store]
         ELSE IF healthy THEN [res |-> "ok", walks |-> NoWalks, mem |-> With(mem, o.mid, <<>>), store |-> With(store, o.mid, <<>>)]
         ELSE [res |-> "error", walks |-> NoWalks, mem |-> mem, store |-> store]
    [] o.kind = "add2" ->   \* a machine with the other specification (it tags what it records); marked by its first log entry
         IF o.mid \in DOMAIN mem THEN [res |-> "exists", walks |-> NoWalks, mem |-> mem, store |-> store]
         ELSE IF healthy THEN [res |-> "ok", walks |-> NoWalks, mem |-> With(mem, o.mid, <<"#2">>), store |-> With(store, o.mid, <<"#2">>)]
         ELSE [res |-> "error", walks |-> NoWalks, mem |-> mem, store |-> store]
    [] o.kind = "rem" ->
         IF healthy THEN [res |-> "ok", walks |-> NoWalks, mem |-> Without(mem, o.mid), store |-> Without(store, o.mid)]
         ELSE [res |-> "error", walks |-> NoWalks, mem |-> mem, store |-> store]
    [] o.kind = "proc" ->
         LET ts == Targets(o, mem)
             Rec(t) == IF mem[t] # <<>> /\ mem[t][1] = "#2" THEN "2:" \o o.msg ELSE o.msg
             \* a machine that failed (a "boom" message: the first step of its walk errs) sits at the error node, its
             \* state marked "@err", and reacts to nothing any more
             Stuck(t) == mem[t] # <<>> /\ mem[t][Len(mem[t])] = "@err"
             Boom == "boom" \in DOMAIN o /\ o.boom
             To(t) == IF Stuck(t) THEN mem[t] ELSE IF Boom THEN Append(mem[t], "@err") ELSE Append(mem[t], Rec(t))
             ws == [t \in ts |-> [from |-> mem[t], to |-> To(t)]]
         \* (nothing moved - every addressed machine is stuck -: nothing to write, so a failing store does not matter)
         IN IF healthy \/ ts = {} \/ (\A t \in ts : ws[t].to = ws[t].from)
            THEN [res |-> "ok", walks |-> ws,
                  mem |-> [t \in DOMAIN mem |-> IF t \in ts THEN ws[t].to ELSE mem[t]],
                  store |-> [t \in DOMAIN store \cup ts |-> IF t \in ts THEN ws[t].to ELSE store[t]]]
            ELSE [res |-> "error", walks |-> ws, mem |-> mem, store |-> store]
    [] OTHER -> [res |-> "ok", walks |-> NoWalks, mem |-> mem, store |-> store]   \* read

MemEqualsStore(mem, store) == mem = store
=============================================================================
