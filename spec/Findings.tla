------------------------------ MODULE Findings ------------------------------
(***************************************************************************)
(* Signatures of known findings (DESIGN.md section 7).  A signature is a   *)
(* predicate over a judged case that characterises the specific input      *)
(* class, call site or history shape of a finding listed in                *)
(* /verif/known_findings.json.  The judges evaluate the signatures only on *)
(* cases they reject; a rejected case that satisfies no listed signature   *)
(* is a VIOLATION.  Signatures are narrow on purpose.                      *)
(***************************************************************************)
EXTENDS Match, Actions

MatchSigs(c) == {}

StepSigs(c) == {}
WalkSigs(c) == {}
PersistSigs(c) == {}
ExpectSigs(c) == {}
GraphSigs(c) == {}
=============================================================================
