--------------------------- MODULE Trace_SystemIO ---------------------------
(***************************************************************************)
(* Trace validation of the crew AS siostd RUNS IT against SioSystem.tla,   *)
(* with unobserved steps.  One line of cases.ndjson is one history of      *)
(* sysdrv's stdio mode: the real Loop goroutine, the real Stdio couplings   *)
(* and JSON state file, timers that fire by themselves, restarts from the  *)
(* state file.  Recorded per action: the state file (the host's store) and *)
(* the messages written as "emit" lines since the previous action.         *)
(*                                                                         *)
(* Timer firings and the processing of fired messages are not recorded.    *)
(* The actions Fire and Deliver of SioSystem.tla are therefore SILENT      *)
(* steps that TLC may insert anywhere (at most one Fire per pending timer, *)
(* one Deliver per queued message, so the search is finite); a history is  *)
(* accepted when SOME placement of silent steps explains every recorded    *)
(* store and every emitted message.  Fired messages wait on an unbuffered  *)
(* channel together with the next input line: they are delivered in any    *)
(* order.                                                                  *)
(***************************************************************************)
EXTENDS SystemOps, Json
H == ndJsonDeserialize("cases.ndjson")
TheCfg == ndJsonDeserialize("sysconfig.ndjson")[1]

VARIABLES h, l, ph, nb, hb, cs, store, inq, tdirty, em, det
vars == <<h, l, ph, nb, hb, cs, store, inq, tdirty, em, det>>
\* at most MaxHidden silent steps between two recorded steps (a timer that re-creates itself would otherwise make the search infinite)
MaxHidden == 8

Steps == H[h].steps
Inputs == Cfg.inputs
ItemOf(i) == LET x == Inputs[i] IN IF x.k = "msg" THEN Item(x.m, NoOp) ELSE Item(x.m, x)
\* the barrier message: addressed to the driver's probe machine, which is not part of the model
Barrier == Item(Obj([to |-> Str("probe")]), NoOp)
Flat(batches) == FoldLeft(LAMBDA a, b : a \o b, <<>>, batches)
Without1(s, k) == [i \in 1..(Len(s) - 1) |-> IF i < k THEN s[i] ELSE s[i + 1]]

Init == /\ h \in DOMAIN H /\ l = 1 /\ ph = "act" /\ nb = 0 /\ hb = 0
        /\ cs = [ms |-> Cfg.init, tbs |-> EmptyFn, tmap |-> EmptyFn, cbs |-> EmptyFn, gen |-> 0]
        /\ store = [ms |-> Cfg.init, tm |-> [bs |-> EmptyFn, map |-> EmptyFn]]
        /\ inq = <<>> /\ tdirty = FALSE /\ em = <<>> /\ det = TRUE

Processed(it) ==
  LET r == Process(cs, it) IN
  /\ cs' = r.cs
  /\ em' = em \o Flat(r.emitted)
  /\ det' = (det /\ r.det)
  /\ store' = StoreAfter(store, r.cs, r.tmoved, tdirty)
  /\ tdirty' = FALSE

\* ---- silent steps
HiddenFire == \E id \in DOMAIN cs.tmap :
                /\ hb < MaxHidden /\ hb' = hb + 1
                /\ cs' = [cs EXCEPT !.tmap = Drop(cs.tmap, id)]
                /\ inq' = Append(inq, cs.tmap[id].msg)
                /\ tdirty' = TRUE
                /\ UNCHANGED <<h, l, ph, nb, store, em, det>>
HiddenDeliver == \E k \in DOMAIN inq :
                   /\ hb < MaxHidden /\ hb' = hb + 1
                   /\ Processed(Item(inq[k], NoOp))
                   /\ inq' = Without1(inq, k)
                   /\ UNCHANGED <<h, l, ph, nb>>

(***************************************************************************)
(* Recorded steps.  The driver follows every action by a BARRIER: a        *)
(* message to a probe machine that is not part of the model (so in the     *)
(* model it is a processing step that changes no machine - but, like every *)
(* processing step, it reports an unreported firing).  When the crew has   *)
(* printed the probe's update, every input sent before has been processed; *)
(* the "emit" lines printed before that line are exactly the emissions up  *)
(* to the barrier (Fin), and the state file read afterwards is the store   *)
(* at the barrier or after further silent steps (Obs).  No timing is       *)
(* assumed.  A "w" action is a sequence of barriers that ended when the    *)
(* state file showed no pending timer; an "r" action is a barrier, the     *)
(* restart from the state file, and the final barrier.                     *)
(***************************************************************************)
Act == /\ det /\ l <= Len(Steps) /\ ph = "act"
       /\ LET a == Steps[l].act IN
          IF a[1] = "s" THEN Processed(ItemOf(a[2])) /\ inq' = inq
          ELSE UNCHANGED <<cs, store, inq, tdirty, em, det>>
       /\ ph' = "pre" /\ nb' = Steps[l].pre /\ hb' = 0 /\ UNCHANGED <<h, l>>
Pre == /\ det /\ ph = "pre" /\ nb > 0
       /\ Processed(Barrier) /\ inq' = inq
       /\ nb' = nb - 1 /\ hb' = 0 /\ UNCHANGED <<h, l, ph>>
PreDone == /\ det /\ ph = "pre" /\ nb = 0
           /\ IF Steps[l].act[1] = "r"
              THEN /\ cs' = Boot(store, cs.gen) /\ inq' = <<>> /\ tdirty' = FALSE
                   /\ UNCHANGED <<store, em, det>>
              ELSE UNCHANGED <<cs, store, inq, tdirty, em, det>>
           /\ ph' = "fin" /\ UNCHANGED <<h, l, nb, hb>>
Fin == /\ det /\ ph = "fin"
       /\ Steps[l].real = "ok"
       /\ LET r == Process(cs, Barrier) IN
          /\ SameBag(Steps[l].emitted, em \o Flat(r.emitted))
          /\ cs' = r.cs /\ em' = <<>> /\ det' = (det /\ r.det)
          /\ store' = StoreAfter(store, r.cs, r.tmoved, tdirty) /\ tdirty' = FALSE
       /\ ph' = "obs" /\ hb' = 0 /\ UNCHANGED <<h, l, nb, inq>>
\* bindings of a service machine: the error text a failed request leaves behind is not compared (only the pattern
\* variables it may leave bound - the Wedge deviation - change what the machine does next)
SvcBs(bs) == LET n == NormBs(bs) IN [k \in DOMAIN n \ {"error"} |-> n[k]]
NormMs(ms) == [k \in DOMAIN ms |-> [spec |-> ms[k].spec, st |-> NormSt(ms[k].st)]]
Obs == /\ det /\ ph = "obs"
       /\ LET o == Steps[l] IN
          /\ NormMs(o.store.ms) = NormMs(store.ms)
          /\ o.store.tm.map = store.tm.map
          /\ SvcBs(o.store.tm.bs) = SvcBs(store.tm.bs)
          /\ o.store.tm.node = "start"
       /\ l' = l + 1 /\ ph' = "act"
       /\ UNCHANGED <<h, nb, hb, cs, store, inq, tdirty, em, det>>

Next == (det /\ (HiddenFire \/ HiddenDeliver)) \/ Act \/ Pre \/ PreDone \/ Fin \/ Obs
Spec == Init /\ [][Next]_vars

\* accepted: the end of the history was reached, or the model left its deterministic fragment (not judged)
ASSUME TLCSet(1, {}) /\ TLCSet(2, [i \in DOMAIN H |-> 0]) /\ TLCSet(3, {})
Mark == /\ (l > TLCGet(2)[h]) => TLCSet(2, [TLCGet(2) EXCEPT ![h] = l])
        /\ (l = Len(Steps) + 1 /\ H[h].outcome = "returned") => TLCSet(1, TLCGet(1) \cup {h})
        /\ (~det) => TLCSet(3, TLCGet(3) \cup {h})
Post ==
  LET rej == SetToSeq(DOMAIN H \ (TLCGet(1) \cup TLCGet(3)))
      NActs(i, k) == Cardinality({j \in DOMAIN H[i].steps : H[i].steps[j].act[1] = k})
      Sum(k) == FoldLeft(LAMBDA a, i : a + NActs(i, k), 0, [i \in DOMAIN H |-> i])
  IN /\ ndJsonSerialize("judge_bad.ndjson",
          [k \in DOMAIN rej |-> [id |-> H[rej[k]].id, line |-> rej[k], system |-> {"not-a-behaviour-of-SioSystem-with-silent-fire-and-deliver"},
                                 at |-> TLCGet(2)[rej[k]], sigs |-> {}]])
     /\ ndJsonSerialize("judge_stats.ndjson",
          <<[lines |-> Len(H),
             stats |-> [histories |-> Len(H), submits |-> Sum("s"), waits |-> Sum("w"), pauses |-> Sum("p"), restarts |-> Sum("r"),
                        unjudged |-> Cardinality(TLCGet(3) \ TLCGet(1)), accepted |-> Cardinality(TLCGet(1))]]>>)
=============================================================================
