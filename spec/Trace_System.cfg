SPECIFICATION Spec
CONSTANTS Cfg <- TheCfg
 Wedge = FALSE
 MakeOnPending = "replace"
 FireDropsBs = FALSE
INVARIANT Done
POSTCONDITION Accepted
CHECK_DEADLOCK FALSE
