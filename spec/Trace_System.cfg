SPECIFICATION Spec
CONSTANTS Cfg <- TheCfg
 Wedge = TRUE
 MakeOnPending = "cancel"
 FireDropsBs = FALSE
INVARIANT Done
POSTCONDITION Accepted
CHECK_DEADLOCK FALSE
