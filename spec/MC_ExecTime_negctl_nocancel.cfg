SPECIFICATION FairSpec
CONSTANTS Terminates = TRUE
 Watcher = TRUE
 CancelAfter = FALSE
 MaxT = 3
INVARIANT TimeoutReported
PROPERTY Prompt
PROPERTY NoLeak
CHECK_DEADLOCK FALSE
