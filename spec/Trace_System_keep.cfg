SPECIFICATION Spec
CONSTANTS Cfg <- TheCfg
 Wedge = FALSE
 MakeOnPending = "keep"
 FireDropsBs = FALSE
INVARIANT Done
POSTCONDITION Accepted
CHECK_DEADLOCK FALSE
