---------------------------- MODULE MC_SioSystem ----------------------------
(***************************************************************************)
(* A scenario for SioSystem.tla, read from the configuration the Go driver *)
(* writes (sysdrv config): doors that unlock on a coin and ask the timers  *)
(* machine to send them a "relock" message later, cancel that timer when   *)
(* pushed shut; a second door that the captain adds and deletes; requests  *)
(* sent directly to the timers machine (valid and invalid) and a message   *)
(* the captain does not understand.                                        *)
(***************************************************************************)
EXTENDS SioSystem, Json
TheCfg == ndJsonDeserialize("sysconfig.ndjson")[1]
CONSTANT MaxN
Bound == Len(hist) <= MaxN
View == <<cs, store, inq, tdirty, det, env>>

Doors == {k \in DOMAIN cs.ms : cs.ms[k].spec = "door"}
Node(k) == StNode(cs.ms[k].st)
DoorsWellFormed == \A k \in Doors : Node(k) \in {"locked", "unlocked"}
RelockMsg(k) == StBs(cs.ms[k].st)["relock"]
RelockId(k)  == StBs(cs.ms[k].st)["tid"][2]
\* an unlocked door has its relock message scheduled: as a pending timer or in the input queue
RelockScheduled ==
  \A k \in Doors : Node(k) = "unlocked" =>
     \/ (RelockId(k) \in DOMAIN cs.tmap /\ cs.tmap[RelockId(k)].msg = RelockMsg(k))
     \/ \E i \in DOMAIN inq : inq[i] = RelockMsg(k)
\* the same, for hosts that leave the timers machine alone (no direct requests: inputs flagged "direct")
RelockScheduledUndisturbed == (~env.direct /\ ~env.crashed) => RelockScheduled
\* ... crashes allowed
RelockScheduledNoDirect == ~env.direct => RelockScheduled
Wedged == DOMAIN cs.tbs # {} \/ DOMAIN cs.cbs # {}
\* behaviour export: one behaviour (the labels of its actions) per distinct state TLC reaches; the check
\* replays every one of them on the real crew (sysdrv replay), so that every reachable model state
\* within the bound is visited by the implementation
Export == PrintT("BEH " \o ToString(hist))
=============================================================================
