-------------------------- MODULE Trace_McrewRoute --------------------------
(***************************************************************************)
(* C14 for the mcrew host.  Routing (cmd/mcrew README): a message whose    *)
(* "to" is a string goes to the service of that name if the name is        *)
(* reserved (timers, http, ws) and otherwise to the machine with that id;  *)
(* every other message (no "to", or a "to" that is not a string) is        *)
(* presented to every machine.  Messages emitted while processing are      *)
(* processed again (asynchronously), each exactly once, and each is        *)
(* reported to the host exactly once.                                      *)
(* One line is one history over recorder machines that emit a fixed list   *)
(* whenever they are presented a message (emission graph a -> b, c; b -> c *)
(* is acyclic).  Messages are JSON objects with an id under "m".           *)
(***************************************************************************)
EXTENDS Integers, Sequences, FiniteSets, TLC, Json, SequencesExt

Trace == ndJsonDeserialize("cases.ndjson")
VARIABLES l, bad, stats
vars == <<l, bad, stats>>
\* mcrew reserves the names of its services; the debugger host (cmd/mdb) has no services
Reserved(host) == IF host = "mdb" THEN {} ELSE {"timers", "http", "ws"}

\* The drivers describe a routing target as msg.tok (TLC cannot compare a string with a list):
\*   <<"none">> absent, <<"other">> neither a string nor a list, <<"str", s>>, <<"list", m1, m2, ...>> with every member
\*   that is not a string written "#nonstring".
\* mcrew (as the single-loop crew): no target or an unintelligible one -> every machine; "*" -> every machine; a reserved
\* name -> the service, no machine; an id -> that machine; a list -> the machines it names, each once.
\* mdb (the debugger host, not one of the two crew hosts): a string is an id, anything else -> every machine.
Members(tok) == {tok[i] : i \in 2..Len(tok)} \ {"#nonstring"}
AddressedH(host, msg, ids) ==
  LET tok == msg.tok IN
  IF tok[1] \in {"none", "other"} THEN ids
  ELSE IF tok[1] = "str" THEN
       (IF host = "mcrew" /\ tok[2] = "*" THEN ids
        ELSE IF tok[2] \in Reserved(host) THEN {}
        ELSE {tok[2]} \cap ids)
  ELSE IF host = "mcrew" THEN (Members(tok) \ Reserved(host)) \cap ids
  ELSE ids
Host(c) == IF "host" \in DOMAIN c THEN c.host ELSE "mcrew"

Flat(ss) == FoldLeft(LAMBDA acc, x : acc \o x, <<>>, ss)
\* what is emitted when every message of `level` has been presented to its addressees
NextLevel(c, level) ==
  LET ids == DOMAIN c.machines IN
  Flat([i \in DOMAIN level |->
         Flat(SetToSeq({c.machines[k].emit : k \in AddressedH(Host(c), level[i], ids)}))])
\* (machines emit the same list for every message, so the set above loses nothing unless two addressed
\*  machines have equal lists; the generator gives every emitted message a unique id)
RECURSIVE Closure(_, _, _)
Closure(c, level, n) == IF n = 0 \/ level = <<>> THEN <<>> ELSE level \o Closure(c, NextLevel(c, level), n - 1)
AllProcessed(c) == Closure(c, c.externals, 4)
Emitted(c) == SubSeq(AllProcessed(c), Len(c.externals) + 1, Len(AllProcessed(c)))
Ids(ms) == [i \in DOMAIN ms |-> ms[i].m]
SameBagS(s, t) == Len(s) = Len(t) /\ \A i \in DOMAIN s : Cardinality({j \in DOMAIN s : s[j] = s[i]}) = Cardinality({j \in DOMAIN t : t[j] = s[i]})
ExpectedLog(c, k) == SelectSeq(AllProcessed(c), LAMBDA m : k \in AddressedH(Host(c), m, DOMAIN c.machines))

\* deliveries to the timers service: once per message that names it (as a string or anywhere in a list), however often
ToTimers(msg) == msg.tok[1] \in {"str", "list"} /\ "timers" \in {msg.tok[i] : i \in 2..Len(msg.tok)}
ExpectedTimerErrors(c) ==
  Cardinality({i \in DOMAIN AllProcessed(c) : "del" \in DOMAIN AllProcessed(c)[i] /\ AllProcessed(c)[i].del /\ ToTimers(AllProcessed(c)[i])})

Labels(c) ==
  (IF ~SameBagS(c.processed, Ids(AllProcessed(c))) THEN {"message-not-processed-exactly-once"} ELSE {})
  \cup (IF \E k \in DOMAIN c.machines : k \notin DOMAIN c.logs \/ ~SameBagS(c.logs[k], Ids(ExpectedLog(c, k))) THEN {"machine-not-presented-exactly-once"} ELSE {})
  \cup (IF ~SameBagS(c.reported, Ids(Emitted(c))) THEN {"emission-not-reported-exactly-once"} ELSE {})
  \cup (IF Host(c) = "mcrew" /\ "timerErrors" \in DOMAIN c /\ c.timerErrors # ExpectedTimerErrors(c) THEN {"service-not-addressed-exactly-once"} ELSE {})

\* Signature of the known finding F-C14-mcrew-emitted-dropped: in the burst scenario (a host whose Emitted channel is smaller
\* than what one step emits) the only thing wrong is that exactly as many emissions were reported as the channel holds,
\* each of them a real one, once.
Sigs(c, labels) ==
  IF /\ "burst" \in DOMAIN c /\ c.burst
     /\ labels = {"emission-not-reported-exactly-once"}
     /\ Len(c.reported) = c.emittedBuffer /\ Len(c.reported) < Len(Emitted(c))
     /\ \A i \in DOMAIN c.reported : Cardinality({j \in DOMAIN c.reported : c.reported[j] = c.reported[i]}) = 1
     /\ \A i \in DOMAIN c.reported : \E j \in DOMAIN Emitted(c) : Emitted(c)[j].m = c.reported[i]
  THEN {"McrewEmittedChannelFull"} ELSE {}

Init == l = 1 /\ bad = <<>> /\ stats = [histories |-> 0, processed |-> 0, emitted |-> 0]
Next ==
  /\ l <= Len(Trace)
  /\ l' = l + 1
  /\ LET c == Trace[l] a == Labels(c) IN
     /\ bad' = (IF a = {} THEN bad ELSE Append(bad, [id |-> c.id, line |-> l, c14 |-> a, sigs |-> Sigs(c, a)]))
     /\ stats' = [histories |-> stats.histories + 1, processed |-> stats.processed + Len(c.processed), emitted |-> stats.emitted + Len(c.reported)]
Spec == Init /\ [][Next]_vars
Done == (l = Len(Trace) + 1) =>
          /\ ndJsonSerialize("judge_bad.ndjson", bad)
          /\ ndJsonSerialize("judge_stats.ndjson", <<[stats |-> stats, lines |-> Len(Trace)]>>)
Accepted == TLCGet("stats").diameter - 1 = Len(Trace)
=============================================================================
