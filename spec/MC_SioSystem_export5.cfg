SPECIFICATION Spec
CONSTANTS Cfg <- TheCfg
 Wedge = TRUE
 MakeOnPending = "cancel"
 FireDropsBs = FALSE
 MaxN = 5
CONSTRAINT Bound
VIEW View
INVARIANT DoorsWellFormed
INVARIANT StoreCovers
INVARIANT GenUnique
INVARIANT StoreIsLive
INVARIANT Export
PROPERTY RestartInvisible
CHECK_DEADLOCK FALSE
