SPECIFICATION Spec
INVARIANT Mark
POSTCONDITION Post
CHECK_DEADLOCK FALSE
