----------------------------- MODULE Trace_Crew -----------------------------
(***************************************************************************)
(* Judge for recorded histories of the real sio.Crew (C14, C15).  One line *)
(* is one history: the crew's snapshot before the first message and, per   *)
(* processed message, the hook events (dequeue / present), the reported    *)
(* emissions, the live crew and the shadow store folded from the reported  *)
(* changes; plus, for every message boundary, a second crew booted from    *)
(* the store as it was then and fed the rest of the history.               *)
(***************************************************************************)
EXTENDS CrewProp, Json

Trace == ndJsonDeserialize("cases.ndjson")
VARIABLES l, bad, stats
vars == <<l, bad, stats>>

Before(c, i) == IF i = 1 THEN c.live0 ELSE c.steps[i - 1].live

\* a step of a history with crew operations in which the captain was not involved: the crew was what it was before the step
\* all the way through it, so who had to see the message can be said
\* (a machine without a specification - none given, or a source this crew cannot resolve - is not presented anything)
Runnable(snap) == [k \in {x \in DOMAIN snap : x \in Services \/ snap[x].spec \notin {"", "x"}} |-> snap[k]]
CaptainFree(s) == \A j \in DOMAIN s.events : ~(s.events[j][1] = "present" /\ s.events[j][2] = "captain")
C14Labels(c) ==
  IF c.kind = "hist" THEN
    UNION { LET s == c.steps[i] snap == Before(c, i) IN
            IF s.outcome = "returned" /\ CaptainFree(s) /\ ~DeliveredExactlyOnce(Runnable(snap), s.events) THEN {"not-exactly-once"} ELSE {}
            : i \in DOMAIN c.steps }
  ELSE IF c.kind # "route" THEN {} ELSE
  UNION { LET s == c.steps[i] snap == Before(c, i) IN
          (IF s.outcome # "returned" THEN {"process-failed"} ELSE {})
          \cup (IF s.outcome = "returned" /\ ~DeliveredExactlyOnce(snap, s.events) THEN {"not-exactly-once"} ELSE {})
          \cup (IF s.outcome = "returned" /\ ~EmissionsAccounted(snap, s.msg, s.events, s.emitted) THEN {"emissions-not-accounted"} ELSE {})
          \cup (IF s.outcome = "returned" /\ ~BreadthFirst(s.events, s.emitted) THEN {"not-breadth-first"} ELSE {})
          \cup (IF s.outcome = "returned" /\ ~LogsAgree(snap, s.live, s.events) THEN {"machine-log-disagrees"} ELSE {})
          : i \in DOMAIN c.steps }

C15Labels(c) ==
  IF c.kind # "hist" THEN {} ELSE
  UNION { (IF c.steps[i].outcome # "returned" THEN {"process-failed"} ELSE {})
          \cup (IF ~ShadowEqualsLive(c.steps[i].shadow, c.steps[i].live) THEN {"shadow-differs-from-live"} ELSE {})
          : i \in DOMAIN c.steps }
  \cup UNION { IF ~RestartEquivalent(c.restarts[j]) THEN {"restart-differs"} ELSE {} : j \in DOMAIN c.restarts }
  \* the reference consumer (a real sio.Stdio given the same reports) arrives at the store that the model's fold arrives at
  \cup (IF "stdioStore" \in DOMAIN c /\ c.steps # <<>> /\ c.stdioStore # c.steps[Len(c.steps)].shadow THEN {"stdio-store-differs"} ELSE {})

Init == l = 1 /\ bad = <<>> /\ stats = [histories |-> 0, steps |-> 0, dequeues |-> 0, presents |-> 0, batches |-> 0, restarts |-> 0]
Next ==
  /\ l <= Len(Trace)
  /\ l' = l + 1
  /\ LET c == Trace[l] a == C14Labels(c) b == C15Labels(c) IN
     /\ bad' = (IF a \cup b = {} THEN bad ELSE Append(bad, [id |-> c.id, line |-> l, c14 |-> a, c15 |-> b, sigs |-> {}]))
     /\ stats' = [histories |-> stats.histories + 1,
                  steps |-> stats.steps + Len(c.steps),
                  dequeues |-> stats.dequeues + FoldLeft(LAMBDA acc, s : acc + Len(Dequeues(s.events)), 0, c.steps),
                  presents |-> stats.presents + FoldLeft(LAMBDA acc, s : acc + Len(s.events) - Len(Dequeues(s.events)), 0, c.steps),
                  batches |-> stats.batches + FoldLeft(LAMBDA acc, s : acc + Len(s.emitted), 0, c.steps),
                  restarts |-> stats.restarts + Len(c.restarts)]
Spec == Init /\ [][Next]_vars
Done == (l = Len(Trace) + 1) =>
          /\ ndJsonSerialize("judge_bad.ndjson", bad)
          /\ ndJsonSerialize("judge_stats.ndjson", <<[stats |-> stats, lines |-> Len(Trace)]>>)
Accepted == TLCGet("stats").diameter - 1 = Len(Trace)
=============================================================================
