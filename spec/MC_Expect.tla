----------------------------- MODULE MC_Expect -----------------------------
(***************************************************************************)
(* All one-step sessions with <= MaxOuts outputs over streams of <= MaxLines *)
(* lines (and two-step sessions when TwoSteps) over a small vocabulary.     *)
(* TLC checks, on the specification alone, that the documented reader loop  *)
(* (with marks) is sound w.r.t. SpecPass, and exports every session for the *)
(* driver that runs the real tool on it.                                    *)
(***************************************************************************)
EXTENDS Expect, Json, IOUtils
CONSTANTS MaxOuts, MaxLines, TwoSteps, Timeouts, Candidates, Export

LA == Obj([k \in {"a"} |-> Num(2)])
LB == Obj([k \in {"b"} |-> Num(2)])
LC == Obj([k \in {"a", "b"} |-> Num(2)])
LD == Obj([k \in {"c"} |-> Num(2)])
\* a message no pattern of the vocabulary matches (the property variable below has no candidate in it)
LX == Obj([k \in {"x"} |-> Num(6)])
Lines == {LA, LB, LC, LD, Noise}

PA == Obj([k \in {"a"} |-> Num(2)])
PB == Obj([k \in {"b"} |-> Num(2)])
PC == Obj([k \in {"c"} |-> <<"var", "plain", "?x", "?x", "">>])
\* needs two properties: no single one of the lines LA, LB has both (only LC does)
PAB == Obj([k \in {"a", "b"} |-> Num(2)])
Accept == <<"ops", <<>> >>
Reject == <<"ops", << <<"retnull">> >> >>
Outs == [pat : {PA, PB, PC, PAB}, guard : {NoOps, Accept, Reject}, inv : BOOLEAN]
\* a property variable: {"?k": 2} matches LA and LB in one way, LC in two (k = a, k = b), LX and LD' in none; a guard that
\* rejects the candidate k = a and accepts any other
PK == <<"pobj", <<"var", "plain", "?k", "?k", "">>, Num(2)>>
NotA == <<"ops", << <<"nullif", "?k", Str("a")>> >> >>
OutsK == [pat : {PK}, guard : {NoOps, NotA}, inv : BOOLEAN]

SeqsUpTo(n, S) == UNION {[1..k -> S] : k \in 0..n}
Step1 == [lines : SeqsUpTo(MaxLines, Lines), outs : SeqsUpTo(MaxOuts, Outs)]
Sessions == {<<s>> : s \in Step1} \cup
            (IF TwoSteps THEN {<<s, t>> : s \in [lines : SeqsUpTo(2, Lines), outs : SeqsUpTo(1, Outs)],
                                          t \in [lines : SeqsUpTo(2, Lines), outs : SeqsUpTo(1, Outs)]}
             ELSE {})
            \cup
            \* timing: a first step with or without its own long timeout, a last step that waits for the default timeout
            \* and whose last line may arrive too late for it
            (IF Timeouts THEN
               LET O2 == [pat : {PA, PB}, guard : {NoOps}, inv : BOOLEAN]
                   SlowL == {<<"slow", LA>>, <<"slow", LB>>}
               IN {<<a, b>> : a \in [lines : SeqsUpTo(1, {LA}), outs : SeqsUpTo(1, {o \in O2 : o.pat = PA}), long : BOOLEAN],
                              b \in {[lines |-> f \o sl, outs |-> os, long |-> FALSE] :
                                       f \in SeqsUpTo(1, {LA, LB}), sl \in SeqsUpTo(1, SlowL), os \in SeqsUpTo(2, O2)}}
             ELSE {})

\* sessions about candidates: outputs with the property-variable pattern (alone or next to a plain one)
CandSessions == IF Candidates
                THEN {<<x>> : x \in [lines : SeqsUpTo(2, {LA, LC, LX}), outs : SeqsUpTo(2, OutsK \cup [pat : {PA}, guard : {NoOps}, inv : BOOLEAN])]}
                ELSE {}

VARIABLE s
Init == s \in Sessions \cup CandSessions
Next == UNCHANGED s
Spec == Init /\ [][Next]_s

\* the documented loop never passes a session that SpecPass rejects
ToolSound == ToolPass(s, TRUE) => SpecPass(s)
\* (negative control, not part of the check: ToolPass(s, FALSE) => SpecPass(s) is violated)
ForgetfulSound == ToolPass(s, FALSE) => SpecPass(s)

Emit == Export => Serialize(ToJson([steps |-> s]) \o "\n", "export.ndjson",
                  [format |-> "TXT", charset |-> "UTF-8", openOptions |-> <<"WRITE", "CREATE", "APPEND">>]).exitValue = 0
=============================================================================
