SPECIFICATION Spec
INVARIANT Done
POSTCONDITION Accepted
CHECK_DEADLOCK FALSE
