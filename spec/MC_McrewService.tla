-------------------------- MODULE MC_McrewService --------------------------
EXTENDS McrewService, Json, SequencesExt
CONSTANT Scenario
Scenarios == <<
  << <<"add", "a">>, <<"proc", "a", "m1">> >>,
  << <<"add", "a">>, <<"proc", "a", "m1">>, <<"proc", "a", "m2">> >>,
  << <<"add", "a">>, <<"rem", "a">>, <<"proc", "a", "m1">> >>,
  << <<"add", "a">>, <<"add", "a">>, <<"rem", "a">> >>,
  << <<"add", "a">>, <<"add", "b">>, <<"proc", "a", "m1">> >>,
  << <<"rem", "a">>, <<"add", "a">>, <<"proc", "a", "m1">>, <<"add", "a">> >>,
  << <<"add", "a">>, <<"add", "b">>, <<"proc", "*", "m1">>, <<"read", "a">> >>,
  << <<"add", "a">>, <<"proc", "a", "m1">>, <<"read", "a">>, <<"rem", "a">> >> >>
OpsOf == Scenarios[Scenario]
\* export every complete behaviour's schedule (collected in a TLC register, written at the end)
Collect == AllDone => TLCSet(1, TLCGet(1) \cup {sched})
Post == LET q == SetToSeq(TLCGet(1)) IN
        ndJsonSerialize("schedules.ndjson", [i \in DOMAIN q |-> [scenario |-> Scenario, ops |-> OpsOf, sched |-> q[i]]])
ASSUME TLCSet(1, {})
=============================================================================
