------------------------------ MODULE MC_Timers ------------------------------
EXTENDS Timers, Json, SequencesExt
\* export complete behaviours (every timer goroutine finished) as gate schedules
Collect == (Quiet /\ nextU > 1 /\ Len(sched) <= 9) => TLCSet(1, TLCGet(1) \cup {sched})
Post == LET q == SetToSeq(TLCGet(1)) IN ndJsonSerialize("schedules.ndjson", [i \in DOMAIN q |-> [sched |-> q[i]]])
ASSUME TLCSet(1, {})
Bound == Len(sched) <= 9
=============================================================================
