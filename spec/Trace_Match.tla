---------------------------- MODULE Trace_Match ----------------------------
(***************************************************************************)
(* Judge for recorded evaluations of the real match.Match (C01, C02, C03). *)
(* One line of cases.ndjson is one case:                                   *)
(*   [id, kind, p, m, bs, qstr, hasSigma, sigma,                            *)
(*    evals : << [res : <<bindings...>>, err : "" | class] ... >>,          *)
(*    frame : [p, m, bs]   the arguments as observed after all evaluations, *)
(*    frameMut : [p, m, bs] the arguments after the returned maps were      *)
(*                          mutated by the driver,                          *)
(*    othersBefore, othersAfter : the 2nd.. results of the first evaluation *)
(*                  before / after its 1st result map was mutated]          *)
(* Every case is judged; failing ones are collected with labels, so one    *)
(* rejection never hides the rest.                                         *)
(***************************************************************************)
EXTENDS Match, Findings, Json

Trace == ndJsonDeserialize("cases.ndjson")

VARIABLES l, bad, stats
vars == <<l, bad, stats>>

\* ---- C01
C01Applies(c) == ~c.qstr /\ InFragment(c.p) /\ IneqBound(c.p, c.bs)
C01Labels(c) ==
  IF ~C01Applies(c) THEN {}
  ELSE UNION { IF c.evals[i].err = "" /\ ~Sound(c.p, c.m, c.bs, c.evals[i].res) THEN {"unsound"} ELSE {}
               : i \in DOMAIN c.evals }

\* ---- C02
PlantedApplies(c) == c.hasSigma /\ ~c.qstr /\ PlantedOK(c.p, c.m, c.sigma) /\ DOMAIN c.bs = {}
ExactApplies(c) == ~c.qstr /\ ExactClass(c.p, c.m, c.bs)
C02Labels(c) ==
  (IF PlantedApplies(c)
   THEN UNION { IF c.evals[i].err # "" \/ ~PlantedFound(c.sigma, c.evals[i].res) THEN {"planted-lost"} ELSE {}
                : i \in DOMAIN c.evals }
   ELSE {})
  \cup
  (IF ExactApplies(c)
   THEN UNION { IF c.evals[i].err # "" \/ ~Exact(c.p, c.m, c.evals[i].res) THEN {"inexact"} ELSE {}
                : i \in DOMAIN c.evals }
   ELSE {})

\* ---- C03
C03Labels(c) ==
  LET e1 == c.evals[1] IN
  (IF \E i \in DOMAIN c.evals : (c.evals[i].err = "") # (e1.err = "") THEN {"outcome-varies"} ELSE {})
  \cup
  (IF \E i \in DOMAIN c.evals : c.evals[i].err = "" /\ e1.err = "" /\ ~SameBag(c.evals[i].res, e1.res)
   THEN {"result-varies"} ELSE {})
  \cup
  (IF c.frame.p # c.p \/ c.frame.m # c.m \/ c.frame.bs # c.bs THEN {"input-modified"} ELSE {})
  \cup
  (IF c.frameMut.p # c.p \/ c.frameMut.m # c.m \/ c.frameMut.bs # c.bs THEN {"result-aliases-input"} ELSE {})
  \cup
  (IF c.othersAfter # c.othersBefore THEN {"results-share-a-map"} ELSE {})
  \cup
  \* a pattern that has been matched, then edited where it is, is matched as what it is now (nothing about it is remembered)
  (IF "editSame" \in DOMAIN c /\ ~c.editSame THEN {"earlier-pattern-remembered"} ELSE {})

\* (C01, too: what is returned for the edited pattern has to fit IT)
Edited(c) == IF "editSame" \in DOMAIN c /\ ~c.editSame THEN {"earlier-pattern-remembered"} ELSE {}
Labels(c) == [c01 |-> C01Labels(c) \cup Edited(c), c02 |-> C02Labels(c), c03 |-> C03Labels(c)]

NonTrivial(c) == \E i \in DOMAIN c.evals : c.evals[i].err = "" /\ c.evals[i].res # <<>>

Init == l = 1 /\ bad = <<>>
        /\ stats = [c01 |-> 0, planted |-> 0, exact |-> 0, nontrivial |-> 0, multi |-> 0, errs |-> 0]

Next ==
  /\ l <= Len(Trace)
  /\ l' = l + 1
  /\ LET c == Trace[l]
         lab == Labels(c)
         all == lab.c01 \cup lab.c02 \cup lab.c03
     IN /\ bad' = (IF all = {} THEN bad
                   ELSE Append(bad, [id |-> c.id, line |-> l, c01 |-> lab.c01, c02 |-> lab.c02,
                                     c03 |-> lab.c03, sigs |-> MatchSigs(c)]))
        /\ stats' = [c01 |-> stats.c01 + (IF C01Applies(c) THEN 1 ELSE 0),
                     planted |-> stats.planted + (IF PlantedApplies(c) THEN 1 ELSE 0),
                     exact |-> stats.exact + (IF ExactApplies(c) THEN 1 ELSE 0),
                     nontrivial |-> stats.nontrivial + (IF NonTrivial(c) THEN 1 ELSE 0),
                     multi |-> stats.multi + (IF \E i \in DOMAIN c.evals : Len(c.evals[i].res) > 1 THEN 1 ELSE 0),
                     errs |-> stats.errs + (IF \E i \in DOMAIN c.evals : c.evals[i].err # "" THEN 1 ELSE 0)]

Spec == Init /\ [][Next]_vars

\* written once, in the final state
Done == (l = Len(Trace) + 1) =>
          /\ ndJsonSerialize("judge_bad.ndjson", bad)
          /\ ndJsonSerialize("judge_stats.ndjson", <<[stats |-> stats, lines |-> Len(Trace)]>>)

Accepted == TLCGet("stats").diameter - 1 = Len(Trace)
=============================================================================
