------------------------------ MODULE MC_Step ------------------------------
(***************************************************************************)
(* Bounded universe of single steps (C04; also C06, C08, C18).  A step     *)
(* depends only on the current node and the spec-level error settings, so  *)
(* "all specifications with up to three nodes and two branches per node    *)
(* over a small pattern/message vocabulary" is enumerated as ALL NODE       *)
(* SHAPES: action (none, or one of the op-lists below, rendered as          *)
(* ECMAScript or natively) x branching type x 0..2 branches (pattern x      *)
(* guard x target) x error settings x states x pending message.            *)
(* TLC checks sanity theorems of the step relation on every case and       *)
(* exports the cases; the driver builds the real core.Spec for each and    *)
(* calls the real Spec.Step; Trace_Step judges.                            *)
(***************************************************************************)
EXTENDS Machine, Json, IOUtils
CONSTANTS MaxBr,               \* branches per node: 0..MaxBr
          NSlices               \* export every NSlices-th case (1: all)

V1 == Num(2)
A  == Str("a")
Acts == { NoOps,
          <<"ops", << <<"emit", A>> >> >>,
          <<"ops", << <<"set", "k", Num(4)>>, <<"emit", A>> >> >>,
          <<"ops", << <<"del", "k">> >> >>,
          <<"ops", << <<"emit", A>>, <<"throw">> >> >>,
          <<"ops", << <<"set", "t", Str("n1")>>, <<"retnull">> >> >>,
          <<"ops", << <<"fresh", [x \in {"k"} |-> V1]>> >> >>,
          <<"ops", << <<"delall">>, <<"emit", A>> >> >>,
          <<"ops", << <<"emit", A>>, <<"retscalar">> >> >> }
VX == <<"var", "plain", "?x", "?x", "">>
VE == <<"var", "plain", "?e", "?e", "">>
Pats == { NoPat,
          Obj([x \in {"k"} |-> VX]),
          Obj([x \in {"k"} |-> V1]),
          Obj([x \in {"xs"} |-> Arr(<<VE>>)]) }
Guards == { NoOps, <<"ops", << <<"set", "k", Num(6)>> >> >>, <<"ops", << <<"retnull">> >> >> }
Targets == { <<"lit", "n1">>, <<"lit", "ghost">>, <<"ref", "t", "@t">> }
BranchKinds == [pat : Pats, guard : Guards, target : Targets]
BranchSeqs == {<<>>} \cup {<<b>> : b \in BranchKinds}
              \cup (IF MaxBr >= 2 THEN {<<b1, b2>> : b1 \in BranchKinds, b2 \in BranchKinds} ELSE {})

Settings == {[aeb |-> TRUE, aen |-> ""], [aeb |-> FALSE, aen |-> "n1"], [aeb |-> FALSE, aen |-> ""]}
Bss == { EmptyFn,
         [x \in {"k", "p!"} |-> IF x = "k" THEN V1 ELSE Str("perm")],
         [x \in {"t", "xs"} |-> IF x = "t" THEN Str("n1") ELSE Arr(<<Num(2), Num(4)>>)] }
Pendings == { NoMsg, Obj([x \in {"k"} |-> V1]), Obj([x \in {"xs", "j"} |-> IF x = "xs" THEN Arr(<<Num(2), Num(4)>>) ELSE A]) }

EmptyNode == [act |-> NoOps, native |-> FALSE, partial |-> FALSE, btype |-> "none", branches |-> <<>>]

VARIABLES act, nat, bt, brs, set, bs, pd
vars == <<act, nat, bt, brs, set, bs, pd>>
Init == /\ act \in Acts /\ nat \in BOOLEAN /\ (nat => act # NoOps)
        /\ bt \in {"message", "bindings"} /\ brs \in BranchSeqs
        /\ set \in Settings /\ bs \in Bss /\ pd \in Pendings
Next == UNCHANGED vars
Spec == Init /\ [][Next]_vars
c == [node |-> [act |-> act, native |-> nat, partial |-> FALSE, btype |-> bt, branches |-> brs],
      aeb |-> set.aeb, aen |-> set.aen, bs |-> bs, pending |-> pd]

SpecOf(x) == [nodes |-> [n \in {"n0", "n1", "error"} |-> IF n = "n0" THEN x.node ELSE EmptyNode], aeb |-> x.aeb, aen |-> x.aen]
Outs == StepOutcomes(SpecOf(c), St("n0", c.bs), c.pending, {"p!"})

\* sanity theorems of the step relation
MessageBranchingConsumes == (c.node.btype = "message" /\ c.node.act = NoOps /\ c.pending # NoMsg) => \A o \in Outs : o.consumed = c.pending
BindingsBranchingNeverConsumes == c.node.btype = "bindings" => \A o \in Outs : o.consumed = NONE
FailingActionEmitsNothing == (HasAct(c.node) /\ Run(ActOps(c.node), c.bs).oc = "fail") => \A o \in Outs : o.emitted = <<>>
PermanentSurvives == \A o \in Outs : o.to # NONE => PermanentKept({"p!"}, c.bs, StBs(o.to))
NonEmpty == Outs # {}

\* export (single worker): every NSlices-th case in enumeration order
ASSUME TLCSet(3, 0)
Emit == /\ TLCSet(3, TLCGet(3) + 1)
        /\ (TLCGet(3) % NSlices = 0) =>
             Serialize(ToJson(c) \o "\n", "export.ndjson",
                       [format |-> "TXT", charset |-> "UTF-8", openOptions |-> <<"WRITE", "CREATE", "APPEND">>]).exitValue = 0
=============================================================================
