SPECIFICATION Spec
CONSTANTS Cfg <- TheCfg
 Wedge = FALSE
 MakeOnPending = "cancel"
 FireDropsBs = FALSE
INVARIANT Done
POSTCONDITION Accepted
CHECK_DEADLOCK FALSE
