SPECIFICATION Spec
CONSTANTS MaxOuts = 2
 MaxLines = 3
 Timeouts = FALSE
 TwoSteps = FALSE
 Export = TRUE
INVARIANT ToolSound
INVARIANT Emit
CHECK_DEADLOCK FALSE
