------------------------------ MODULE Machine ------------------------------
(***************************************************************************)
(* Reference semantics of one processing step and of a walk (README        *)
(* "Processing", doc/by-example.md, doc/rfc.md; DESIGN.md appendix D).     *)
(*                                                                         *)
(* A compiled specification is                                             *)
(*   [nodes : [name -> Node], aeb : BOOLEAN, aen : STRING, en : STRING]    *)
(*   (en: the spec's error node, "" or absent for the node "error")        *)
(*   Node   = [act : NoOps | <<"ops", ops>> , native : BOOLEAN,            *)
(*             btype : "none" | "message" | "bindings",                    *)
(*             branches : Seq([pat : <<"nopat">> | pattern,                *)
(*                             guard : NoOps | <<"ops", ops>>,              *)
(*                             target : <<"lit", n>> | <<"ref", var, lit>>])] *)
(* A state is <<"st", node, bs>>.  A pending message is a value or         *)
(* <<"nomsg">>.  perm is the set of permanent ("...!") binding names.      *)
(*                                                                         *)
(* StepOutcomes is a RELATION: where the documentation leaves a choice     *)
(* open (guard candidates tried in any order; several candidates without a *)
(* guard: "too many" error or an arbitrary one) every allowed outcome is a *)
(* member.                                                                 *)
(***************************************************************************)
EXTENDS Match, Actions

NONE    == <<"none">>
NoMsg   == <<"nomsg">>
NoPat   == <<"nopat">>
ErrText == <<"str", "<err>">>
St(n, bs) == <<"st", n, bs>>
StNode(s) == s[2]
StBs(s)   == s[3]

\* the spec's error node: the node it names (errorNode), or the node called "error"
ErrNode(spec) == IF "en" \in DOMAIN spec /\ spec.en # "" THEN spec.en ELSE "error"

Out(stride, to, consumed, em, cls) ==
  [stride |-> stride, to |-> to, consumed |-> consumed, emitted |-> em, cls |-> cls]

HasAct(node)  == node.act # NoOps
ActOps(node)  == node.act[2]

Target(t, bs) == IF t[1] = "ref" /\ t[2] \in DOMAIN bs /\ IsStr(bs[t[2]]) THEN bs[t[2]][2] ELSE
                 IF t[1] = "ref" THEN t[3] ELSE t[2]

WithErr(bs)   == Merge(bs, [k \in {"actionError", "error"} |-> ErrText])

\* the bindings of the error node: error text, the node at which it occurred and the bindings at that point
ErrBs(b, lastNode, lastBs) ==
  Merge(b, [k \in {"error", "lastNode", "lastBindings"} |->
              CASE k = "error" -> ErrText [] k = "lastNode" -> Str(lastNode) [] OTHER -> Obj(lastBs)])

(***************************************************************************)
(* One branch: the set of results [k : "next" | "take" | "err", ...].      *)
(***************************************************************************)
\* dead: the context has ended (the action timed out): a guard run under it may be interrupted, too
TryBranch(b, bs, against, perm, dead) ==
  LET cands == IF b.pat = NoPat THEN {bs} ELSE M(b.pat, against, bs)
      bad   == IF b.pat = NoPat THEN FALSE ELSE ~InFragment(b.pat)
      mErr  == IF bad THEN {[k |-> "err", cls |-> "matcherr"]} ELSE {}
  IN mErr \cup
  (IF cands = {} THEN {[k |-> "next"]}
   ELSE IF b.guard = NoOps THEN
        IF Cardinality(cands) = 1
        THEN {[k |-> "take", bs |-> c, target |-> Target(b.target, c)] : c \in cands}
        ELSE {[k |-> "err", cls |-> "toomany"]} \cup
             {[k |-> "take", bs |-> c, target |-> Target(b.target, c)] : c \in cands}
   ELSE LET res(c)  == Run(b.guard[2], c)
            kept(c) == Restore(perm, c, res(c).bs)
            takes   == {[k |-> "take", bs |-> kept(c), target |-> Target(b.target, kept(c))]
                        : c \in {d \in cands : res(d).oc = "ok"}}
            errs    == {[k |-> "err", cls |-> res(c).cls] : c \in {d \in cands : res(d).oc = "fail"}}
            late    == IF dead THEN {[k |-> "err", cls |-> "timeout"]} ELSE {}
        IN (IF takes = {} /\ errs = {} THEN {[k |-> "next"]} ELSE takes \cup errs) \cup late)

RECURSIVE Consider(_, _, _, _, _)
Consider(brs, bs, against, perm, dead) ==
  IF brs = <<>> THEN {[k |-> "none"]}
  ELSE UNION { IF r.k = "next" THEN Consider(Tail(brs), bs, against, perm, dead) ELSE {r}
               : r \in TryBranch(Head(brs), bs, against, perm, dead) }

(***************************************************************************)
(* C04.  The set of allowed results of Step(spec, st, pending).            *)
(***************************************************************************)
StepOutcomes(spec, st, pending, perm) ==
  LET n == StNode(st)  bs0 == StBs(st) IN
  IF n \notin DOMAIN spec.nodes THEN {Out(FALSE, NONE, NONE, <<>>, "unknownnode")}
  ELSE
  LET node   == spec.nodes[n]
      hasAct == HasAct(node)
      msgBr  == node.btype = "message"
  IN
  IF hasAct /\ msgBr THEN {Out(FALSE, NONE, NONE, <<>>, "badbranching")}
  ELSE
   LET a      == IF hasAct THEN Run(ActOps(node), bs0) ELSE [oc |-> "ok", cls |-> "", bs |-> bs0, em |-> <<>>, pem |-> <<>>]
       failed == hasAct /\ a.oc = "fail"
       bs1    == IF ~hasAct THEN bs0
                 ELSE IF a.oc = "ok" THEN Restore(perm, bs0, a.bs)
                 ELSE IF a.oc = "null" THEN Restore(perm, bs0, EmptyFn)
                 ELSE WithErr(bs0)
       \* NativePartial (named deviation, outside C08's quantifier): a NATIVE action may return a
       \* partial execution together with its error; the engine then adds its emissions
       em     == IF hasAct /\ a.oc # "fail" THEN a.em
                 ELSE IF hasAct /\ node.native /\ node.partial THEN a.pem ELSE <<>>
   IN
   IF failed /\ ~spec.aeb THEN
        IF spec.aen = "" THEN {Out(FALSE, NONE, NONE, <<>>, a.cls)}
        ELSE {Out(TRUE, St(spec.aen, WithErr(bs0)), NONE, em, "")}
   ELSE
    LET noBr     == node.btype = "none"
        nomsg    == pending = NoMsg
        consumed == IF msgBr /\ ~nomsg THEN pending ELSE NONE
        results  == IF noBr \/ (msgBr /\ nomsg) THEN {[k |-> "none"]}
                    ELSE Consider(node.branches, bs1, IF msgBr THEN pending ELSE Obj(bs1), perm, failed /\ a.cls = "timeout")
        \* "the bindings at that point": the given bindings; after a failed action
        \* the bindings extended with the error are admitted as well
        lasts    == IF failed THEN {bs0, bs1} ELSE {bs0}
        errTos   == IF hasAct THEN {St(ErrNode(spec), ErrBs(bs1, n, lb)) : lb \in lasts} ELSE {NONE}
    IN UNION {
         CASE r.k = "take" -> {Out(TRUE, St(r.target, r.bs), consumed, em, "")}
           [] r.k = "err"  -> {Out(TRUE, t, consumed, em, r.cls) : t \in errTos}
           [] OTHER        -> {Out(TRUE, t, consumed, em, "") : t \in errTos}
         : r \in results }

\* every branch pattern of the node is one for which the reference matcher is exact
NodeJudgeable(node) ==
  \A i \in DOMAIN node.branches :
     LET p == node.branches[i].pat IN
     p = NoPat \/ (InFragment(p) /\ \A j \in DOMAIN VarOccs(p) : ~IsIneqP(VarOccs(p)[j]))

(***************************************************************************)
(* The engine itself is deterministic except for one documented choice: a  *)
(* guarded branch whose pattern yields several candidates tries them in an *)
(* arbitrary order.  DetSpec: no guarded branch has a pattern that can     *)
(* yield several candidates (an array with a variable, a property          *)
(* variable).                                                              *)
(***************************************************************************)
RECURSIVE MultiCapable(_)
MultiCapable(p) ==
  CASE p = NoPat -> FALSE
    [] IsVarP(p) -> FALSE
    [] Tag(p) = "pobj" -> TRUE
    [] Tag(p) \in {"obj", "badobj"} -> \E k \in DOMAIN p[2] : MultiCapable(p[2][k])
    [] IsArr(p) -> (\E i \in DOMAIN p[2] : IsVarP(p[2][i])) \/ (\E i \in DOMAIN p[2] : MultiCapable(p[2][i]))
    [] OTHER -> FALSE
DetSpec(spec) == \A n \in DOMAIN spec.nodes : \A i \in DOMAIN spec.nodes[n].branches :
                   spec.nodes[n].branches[i].guard = NoOps \/ ~MultiCapable(spec.nodes[n].branches[i].pat)

(***************************************************************************)
(* Normalisation of observed results: error texts are unpredictable, only  *)
(* their presence (a non-empty string) is required.                        *)
(***************************************************************************)
RECURSIVE NormBs(_), NormV(_)
NormV(v) == CASE IsObj(v) -> Obj(NormBs(v[2]))
              [] IsArr(v) -> Arr([i \in DOMAIN v[2] |-> NormV(v[2][i])])
              [] OTHER -> v
NormBs(bs) ==
  [k \in DOMAIN bs |->
     IF k \in {"error", "actionError"} /\ IsStr(bs[k]) /\ bs[k][2] # "" THEN ErrText
     ELSE NormV(bs[k])]
NormSt(t) == IF t = NONE THEN NONE ELSE St(t[2], NormBs(t[3]))

(***************************************************************************)
(* C05.  A walk, as the engine's loop (DESIGN.md appendix D).  The step    *)
(* taken inside a walk turns a step error into a transition to the error   *)
(* node (unless the machine already is there).                             *)
(***************************************************************************)
WalkStrideOutcomes(spec, st, pending, perm) ==
  LET n == StNode(st) bs0 == StBs(st) IN
  UNION {
    IF o.cls = "" THEN {[to |-> o.to, consumed |-> o.consumed, emitted |-> o.emitted]}
    \* a step that fails AT the error node goes nowhere: the walk stops there (InternalError) and hands the error back
    ELSE IF n = ErrNode(spec) THEN {[to |-> NONE, consumed |-> o.consumed, emitted |-> o.emitted]}
    ELSE {[to |-> St(ErrNode(spec), ErrBs(b, n, lb)), consumed |-> o.consumed, emitted |-> o.emitted]
          : b \in {bs0, WithErr(bs0)}, lb \in {bs0, WithErr(bs0)}}
    : o \in StepOutcomes(spec, st, pending, perm) }

\* the step at this state with this pending message can only fail (every allowed outcome is an error)
MustFail(spec, st, pending, perm) == \A o \in StepOutcomes(spec, st, pending, perm) : o.cls # ""
MayFail(spec, st, pending, perm)  == \E o \in StepOutcomes(spec, st, pending, perm) : o.cls # ""

\* no further step is possible without a new message
Quiescent(spec, st, perm) ==
  \A o \in WalkStrideOutcomes(spec, st, NoMsg, perm) : o.to = NONE
\* ... where the step relation leaves a choice (several candidates without a guard: error or an arbitrary
\* one), stopping is truthful when "no transition" is among the allowed outcomes of a further step
MayRest(spec, st, perm) ==
  \E o \in WalkStrideOutcomes(spec, st, NoMsg, perm) : o.to = NONE

CanConsume(spec, st) ==
  StNode(st) \in DOMAIN spec.nodes /\ spec.nodes[StNode(st)].btype = "message"
=============================================================================
