SPECIFICATION Spec
CONSTANTS Cfg <- TheCfg
 Wedge = TRUE
 MakeOnPending = "replace"
 FireDropsBs = FALSE
 MaxN = 5
CONSTRAINT Bound
VIEW View
INVARIANT DoorsWellFormed
INVARIANT StoreCovers
INVARIANT GenUnique
INVARIANT StoreIsLive
INVARIANT RelockScheduledUndisturbed
PROPERTY RestartInvisible
CHECK_DEADLOCK FALSE
