SPECIFICATION Spec
CONSTANTS MaxOuts = 0
 MaxLines = 0
 Candidates = TRUE
 Timeouts = FALSE
 TwoSteps = FALSE
 Export = TRUE
INVARIANT ToolSound
INVARIANT Emit
CHECK_DEADLOCK FALSE
