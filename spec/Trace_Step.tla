----------------------------- MODULE Trace_Step -----------------------------
(***************************************************************************)
(* Judge for recorded calls of the real core.Spec.Step (C04, C06, C07,     *)
(* C08, C18).  One line of cases.ndjson is one call with its snapshots and *)
(* a second identical call on fresh copies.  The observed result must be a *)
(* member of StepOutcomes (Machine.tla).                                   *)
(***************************************************************************)
EXTENDS Machine, Findings, Json

Trace == ndJsonDeserialize("cases.ndjson")

VARIABLES l, bad, stats
vars == <<l, bad, stats>>

Perm(c) == SeqRange(c.perm)
\* a state recorded with nil bindings is, for the semantics, a state with no bindings
Outcomes(c) == StepOutcomes(c.spec, c.st, c.pending, Perm(c))

Obs(o) == Out(o.stride, NormSt(o.to), o.consumed, o.emitted, o.cls)

\* A state given with nil (absent) bindings is a state with empty bindings for the branches of its node (a branch
\* without a pattern is followed, patterns are matched against an empty map).  What an ECMAScript action or guard makes
\* of absent bindings (`_.bindings` is null there) is not part of the rule: such nodes are judged for totality only (C07).
ScriptFree(node) == /\ (HasAct(node) => node.native)
                    /\ \A i \in DOMAIN node.branches : (node.branches[i].guard # NoOps => node.native)
Judgeable(c) ==
  /\ (c.nilbs => (StNode(c.st) \in DOMAIN c.spec.nodes => ScriptFree(c.spec.nodes[StNode(c.st)])))
  /\ ~c.q
  /\ (StNode(c.st) \in DOMAIN c.spec.nodes => NodeJudgeable(c.spec.nodes[StNode(c.st)]))

\* error classes (computed by a fixed table from the error text) are compared exactly
ClsOK(o, m) == o.cls = m.cls
Member(o, S) == \E m \in S : m.stride = o.stride /\ m.to = o.to /\ m.consumed = o.consumed
                              /\ m.emitted = o.emitted /\ ClsOK(o, m)

Returned(c) == c.out.outcome = "returned"

C04Labels(c) ==
  (IF Returned(c) /\ Judgeable(c) /\ ~Member(Obs(c.out), Outcomes(c)) THEN {"not-the-documented-step"} ELSE {})
  \* a step that does not come back is not the documented step either, whatever the state it was given (also one without
  \* bindings, which is otherwise judged for totality only)
  \cup (IF c.out.outcome \in {"panicked", "hung"} THEN {"step-did-not-return"} ELSE {})

ModelFails(c) == \A m \in Outcomes(c) : m.cls # "" \/ (m.to # NONE /\ "error" \in DOMAIN StBs(m.to))
C07Labels(c) ==
  (IF c.out.outcome = "panicked" THEN {"crash"} ELSE {})
  \cup (IF c.out.outcome = "hung" THEN {"hang"} ELSE {})
  \cup (IF c.repeat.outcome # "returned" THEN {"crash-on-repeat"} ELSE {})
  \cup (IF Returned(c) /\ Judgeable(c) /\ ModelFails(c) /\ ~Member(Obs(c.out), Outcomes(c))
        THEN {"failure-not-surfaced"} ELSE {})

C08Labels(c) ==
  IF Returned(c) /\ Judgeable(c) /\ c.out.emitted \notin {m.emitted : m \in Outcomes(c)}
  THEN {"emission"} ELSE {}

HasPerm(c) == Perm(c) \cap DOMAIN StBs(c.st) # {}
C18Labels(c) ==
  (IF Returned(c) /\ c.out.to # NONE /\ ~PermanentKept(Perm(c), StBs(c.st), StBs(c.out.to))
   THEN {"permanent-binding-lost"} ELSE {})
  \cup (IF ~Returned(c) /\ HasPerm(c) THEN {"crash-with-permanent-binding"} ELSE {})

Deterministic(c) == Cardinality(Outcomes(c)) = 1
C06Labels(c) ==
  (IF c.frame.st # c.st THEN {"state-modified"} ELSE {})
  \cup (IF c.frame.pending # c.pending THEN {"message-modified"} ELSE {})
  \cup (IF ~c.frame.specSame THEN {"spec-modified"} ELSE {})
  \cup (IF ~c.frame.propsSame THEN {"props-modified"} ELSE {})
  \cup (IF ~c.frame.ctlSame THEN {"control-modified"} ELSE {})
  \cup (IF c.frame.sharesBs THEN {"result-shares-bindings-map"} ELSE {})
  \cup (IF Returned(c) /\ c.repeat.outcome = "returned" /\ Judgeable(c) /\ Deterministic(c)
           /\ Obs(c.repeat) # Obs(c.out)
        THEN {"not-repeatable"} ELSE {})

Labels(c) == [c04 |-> C04Labels(c), c06 |-> C06Labels(c), c07 |-> C07Labels(c),
              c08 |-> C08Labels(c), c18 |-> C18Labels(c)]

Zero == [judged |-> 0, moved |-> 0, failing |-> 0, emitting |-> 0, perm |-> 0, guarded |-> 0, multi |-> 0]

Init == l = 1 /\ bad = <<>> /\ stats = Zero

Next ==
  /\ l <= Len(Trace)
  /\ l' = l + 1
  /\ LET c == Trace[l]
         lab == Labels(c)
         all == lab.c04 \cup lab.c06 \cup lab.c07 \cup lab.c08 \cup lab.c18
         outs == Outcomes(c)
     IN /\ bad' = (IF all = {} THEN bad
                   ELSE Append(bad, [id |-> c.id, line |-> l, c04 |-> lab.c04, c06 |-> lab.c06, c07 |-> lab.c07,
                                     c08 |-> lab.c08, c18 |-> lab.c18, sigs |-> StepSigs(c)]))
        /\ stats' = [judged |-> stats.judged + (IF Judgeable(c) THEN 1 ELSE 0),
                     moved |-> stats.moved + (IF c.out.to # NONE THEN 1 ELSE 0),
                     failing |-> stats.failing + (IF ModelFails(c) THEN 1 ELSE 0),
                     emitting |-> stats.emitting + (IF c.out.emitted # <<>> THEN 1 ELSE 0),
                     perm |-> stats.perm + (IF HasPerm(c) THEN 1 ELSE 0),
                     guarded |-> stats.guarded,
                     multi |-> stats.multi + (IF Cardinality(outs) > 1 THEN 1 ELSE 0)]

Spec == Init /\ [][Next]_vars

Done == (l = Len(Trace) + 1) =>
          /\ ndJsonSerialize("judge_bad.ndjson", bad)
          /\ ndJsonSerialize("judge_stats.ndjson", <<[stats |-> stats, lines |-> Len(Trace)]>>)
Accepted == TLCGet("stats").diameter - 1 = Len(Trace)
=============================================================================
