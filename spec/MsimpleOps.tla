----------------------------- MODULE MsimpleOps -----------------------------
(***************************************************************************)
(* The single-machine host cmd/msimple composed with the engine: one       *)
(* machine; every message is walked on its own (Walk1 of SheensOps.tla:    *)
(* the step and walk semantics of Machine.tla); every emitted message is   *)
(* printed and then - unless the host was started with -r=false - given    *)
(* back to the machine AT ONCE, before the next message emitted by the     *)
(* same walk is looked at: depth first, where the crews work breadth first *)
(* (cmd/msimple/main.go: process and reprocess call each other).           *)
(*                                                                         *)
(* The host's state is the machine's state; what it prints is the sequence *)
(* of emitted messages in pre-order.  `fuel` bounds the recursion (a spec  *)
(* that answers its own emissions for ever makes the real host recurse     *)
(* until the stack is exhausted); det says whether the prediction is the   *)
(* only possible one.                                                      *)
(***************************************************************************)
EXTENDS SheensOps

RECURSIVE MsProcess(_, _, _), MsFeed(_, _, _, _, _)
\* a walked message: new state, then the emissions one by one, each printed and (recycled) processed in turn
MsProcess(m, msg, fuel) ==
  IF fuel = 0 THEN [st |-> m.st, out |-> <<>>, det |-> FALSE]
  ELSE LET w == Walk1(m, msg) IN MsFeed([m EXCEPT !.st = w.st], w.emitted, <<>>, w.det, fuel - 1)
MsFeed(m, es, out, det, fuel) ==
  IF es = <<>> THEN [st |-> m.st, out |-> out, det |-> det]
  ELSE LET r == MsProcess(m, Head(es), fuel)
       IN MsFeed([m EXCEPT !.st = r.st], Tail(es), out \o <<Head(es)>> \o r.out, det /\ r.det, fuel)
MsSubmit(m, msg) == MsProcess(m, msg, 12)

\* without recycling (-r=false): the emissions of the one walk, in order
MsSubmitFlat(m, msg) == LET w == Walk1(m, msg) IN [st |-> w.st, out |-> w.emitted, det |-> w.det]
=============================================================================
