---------------------------- MODULE McrewSystem ----------------------------
(***************************************************************************)
(* cmd/mcrew as a state machine (operators and commentary: McrewOps.tla).  *)
(* Clients submit messages, add and remove machines and make the store     *)
(* fail or recover; any waiting Process call may take the lock next; any   *)
(* pending timer may fire.                                                 *)
(***************************************************************************)
EXTENDS McrewOps

VARIABLES S,     \* the host (record, see McrewOps)
          env,   \* what the environment has done: [direct, faulted, changed : BOOLEAN]
          hist   \* labels of the actions taken (behaviour export; not part of the VIEW)
vars == <<S, env, hist>>

Init == S = S0 /\ env = [direct |-> FALSE, faulted |-> FALSE, changed |-> FALSE] /\ hist = <<>>

Input(i) == /\ S' = InputF(S, i)
            /\ hist' = Append(hist, <<"s", i>>)
            /\ env' = [direct  |-> env.direct \/ Inputs[i].direct,
                       faulted |-> env.faulted \/ Inputs[i].k = "fault",
                       changed |-> env.changed \/ Inputs[i].k \in {"add", "rem"}]
\* one waiting call takes the lock and runs to completion
Take(m)  == /\ m \in DOMAIN S.flight
            /\ S' = TakeF(S, m)
            /\ hist' = Append(hist, <<"t", MsgNo(m)>>)
            /\ UNCHANGED env
\* a timer fires: it leaves the map and its goroutine calls Process with its message
Fire(id) == /\ id \in DOMAIN S.tmap
            /\ S' = FireF(S, id)
            /\ hist' = Append(hist, <<"f", id>>)
            /\ UNCHANGED env

Next == \/ \E i \in DOMAIN Inputs : Input(i)
        \/ \E m \in DOMAIN S.flight : Take(m)
        \/ \E id \in DOMAIN S.tmap : Fire(id)
Spec == Init /\ [][Next]_vars

(***************************************************************************)
(* System-level properties.                                                *)
(***************************************************************************)
\* C16 for the whole host: between any two steps memory equals the store
MemEqualsStore == S.ms = S.store
\* every re-processed emission belongs to a step that was persisted (refuted while EmitOnFailedWrite)
EmissionsPersisted == ~S.ghost
=============================================================================
