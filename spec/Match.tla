------------------------------- MODULE Match -------------------------------
(***************************************************************************)
(* Reference semantics of sheens pattern matching (README "Pattern         *)
(* matching", doc/rfc.md, match/match.md, the Coq sketch doc/patmatch.v).  *)
(*                                                                         *)
(* Patterns extend JSON values with                                         *)
(*   <<"var", kind, full, plain, op>>  kind \in {plain, anon, opt, ineq}     *)
(*   <<"pobj", keyVar, valuePattern>>  a map whose sole key is a variable    *)
(*   <<"badobj", f>>                   a variable key next to other keys    *)
(*                                      (outside the supported fragment)    *)
(* The classification of '?'-strings is done by the encoder, because TLC   *)
(* cannot look inside strings.                                             *)
(*                                                                         *)
(*   Sub(v, m)        value v, used as a pattern, is contained in m         *)
(*   Holds(p, m, r, bs0)  p instantiated by r is contained in m  (C01)      *)
(*   M(p, m, bs)      the reference matcher: all extensions of bs  (C02)    *)
(*   Sound / PlantedFound / Exact   the judges                              *)
(***************************************************************************)
EXTENDS JSONValue

IsVarP(p)  == Tag(p) = "var"
VKind(p)   == p[2]
VName(p)   == p[3]
VPlain(p)  == p[4]
VOp(p)     == p[5]
IsAnonP(p) == IsVarP(p) /\ VKind(p) = "anon"
IsOptP(p)  == IsVarP(p) /\ VKind(p) = "opt"
IsIneqP(p) == IsVarP(p) /\ VKind(p) = "ineq"

Rel(op, a, b) ==
  CASE op = "<"  -> a < b
    [] op = "<=" -> a <= b
    [] op = ">"  -> a > b
    [] op = ">=" -> a >= b
    [] op = "!=" -> a # b

(***************************************************************************)
(* Structure of patterns.                                                  *)
(***************************************************************************)
RECURSIVE VarNames(_), PlainCounterparts(_), InFragment(_), VarOccs(_)

\* names of the (non-anonymous) variables occurring in p
VarNames(p) ==
  CASE IsVarP(p) -> IF IsAnonP(p) THEN {} ELSE {VName(p)}
    [] Tag(p) = "pobj" -> VarNames(p[2]) \cup VarNames(p[3])
    [] Tag(p) \in {"obj", "badobj"} -> UNION {VarNames(p[2][k]) : k \in DOMAIN p[2]}
    [] IsArr(p) -> UNION {VarNames(p[2][i]) : i \in DOMAIN p[2]}
    [] OTHER -> {}

\* plain-named counterparts of inequality variables of p
PlainCounterparts(p) ==
  CASE IsVarP(p) -> IF IsIneqP(p) THEN {VPlain(p)} ELSE {}
    [] Tag(p) = "pobj" -> PlainCounterparts(p[2]) \cup PlainCounterparts(p[3])
    [] Tag(p) \in {"obj", "badobj"} -> UNION {PlainCounterparts(p[2][k]) : k \in DOMAIN p[2]}
    [] IsArr(p) -> UNION {PlainCounterparts(p[2][i]) : i \in DOMAIN p[2]}
    [] OTHER -> {}

\* sequence of variable occurrences (tokens) of p, anonymous ones left out
VarOccs(p) ==
  CASE IsVarP(p) -> IF IsAnonP(p) THEN <<>> ELSE <<p>>
    [] Tag(p) = "pobj" -> VarOccs(p[2]) \o VarOccs(p[3])
    [] Tag(p) \in {"obj", "badobj"} ->
         LET RECURSIVE Go(_)
             Go(ks) == IF ks = {} THEN <<>>
                       ELSE LET k == CHOOSE x \in ks : TRUE IN VarOccs(p[2][k]) \o Go(ks \ {k})
         IN Go(DOMAIN p[2])
    [] IsArr(p) ->
         LET RECURSIVE GoA(_)
             GoA(i) == IF i > Len(p[2]) THEN <<>> ELSE VarOccs(p[2][i]) \o GoA(i + 1)
         IN GoA(1)
    [] OTHER -> <<>>

\* the supported fragment: at most one variable directly inside any array,
\* a variable property name only as the sole key of its map
InFragment(p) ==
  CASE IsVarP(p) -> ~(IsIneqP(p) /\ VPlain(p) = "?")
    [] Tag(p) = "badobj" -> FALSE
    [] Tag(p) = "pobj" -> InFragment(p[2]) /\ InFragment(p[3])
    [] IsObj(p) -> \A k \in DOMAIN p[2] : InFragment(p[2][k])
    [] IsArr(p) -> /\ Cardinality({i \in DOMAIN p[2] : IsVarP(p[2][i])}) <= 1
                   /\ \A i \in DOMAIN p[2] : InFragment(p[2][i])
    [] OTHER -> TRUE

(***************************************************************************)
(* Containment of a value used as a pattern (a bound variable's value is   *)
(* re-used as a sub-pattern): maps partially, arrays as sets matched by    *)
(* distinct elements, scalars equal.                                       *)
(***************************************************************************)
RECURSIVE Sub(_, _), SubArr(_, _, _)
Sub(v, m) ==
  CASE IsObj(v) -> IsObj(m) /\ \A k \in DOMAIN v[2] : k \in DOMAIN m[2] /\ Sub(v[2][k], m[2][k])
    [] IsArr(v) -> IsArr(m) /\ SubArr(v[2], m[2], {})
    [] OTHER -> v = m
SubArr(vs, ms, used) ==
  IF vs = <<>> THEN TRUE
  ELSE \E j \in DOMAIN ms \ used : Sub(Head(vs), ms[j]) /\ SubArr(Tail(vs), ms, used \cup {j})

(***************************************************************************)
(* C01.  Holds(p, m, r, bs0): the pattern p, instantiated by the returned  *)
(* bindings r, is contained in the message m.  bs0 are the bindings given  *)
(* to the match (an inequality variable acts as such only when it was      *)
(* given a numeric bound).  Weakest reading: an occurrence of an optional  *)
(* variable that is not matched imposes no constraint.                     *)
(***************************************************************************)
RECURSIVE Holds(_, _, _, _), HoldsArr(_, _, _, _, _)
HoldsVar(p, m, r, bs0) ==
  LET name == VName(p) IN
  IF IsAnonP(p) THEN TRUE
  ELSE IF IsIneqP(p) /\ name \in DOMAIN bs0 /\ IsNum(bs0[name]) /\ IsNum(m)
       THEN /\ Rel(VOp(p), m[2], bs0[name][2])
            /\ VPlain(p) \in DOMAIN r
            /\ r[VPlain(p)] = m
  ELSE IF name \in DOMAIN r THEN Sub(r[name], m)
  ELSE IsOptP(p)

Holds(p, m, r, bs0) ==
  CASE IsVarP(p) -> HoldsVar(p, m, r, bs0)
    [] IsObj(p) -> /\ IsObj(m)
                   /\ \A k \in DOMAIN p[2] :
                        IF k \in DOMAIN m[2] THEN Holds(p[2][k], m[2][k], r, bs0)
                        ELSE IsOptP(p[2][k])
    [] Tag(p) = "pobj" -> /\ IsObj(m)
                          /\ \E k \in DOMAIN m[2] : /\ Holds(p[2], Str(k), r, bs0)
                                                    /\ Holds(p[3], m[2][k], r, bs0)
    [] IsArr(p) -> IsArr(m) /\ HoldsArr(p[2], m[2], {}, r, bs0)
    [] OTHER -> p = m
HoldsArr(ps, ms, used, r, bs0) ==
  IF ps = <<>> THEN TRUE
  ELSE \/ \E j \in DOMAIN ms \ used : /\ Holds(Head(ps), ms[j], r, bs0)
                                      /\ HoldsArr(Tail(ps), ms, used \cup {j}, r, bs0)
       \/ IsOptP(Head(ps)) /\ HoldsArr(Tail(ps), ms, used, r, bs0)

\* An inequality variable acts as one only when it was given a numeric bound
\* (README / match.go documentation: "the input bindings should include a binding
\* for a variable with a name that contains ... an inequality").  A '?<n' that
\* was given no numeric bound is outside the judged fragment.
IneqBound(p, bs0) ==
  LET occ == VarOccs(p) IN
  \A i \in DOMAIN occ : IsIneqP(occ[i]) => (VName(occ[i]) \in DOMAIN bs0 /\ IsNum(bs0[VName(occ[i])]))

Extends(r, bs) == DOMAIN bs \subseteq DOMAIN r /\ \A n \in DOMAIN bs : r[n] = bs[n]

SoundOne(p, m, bs0, r) ==
  /\ Extends(r, bs0)
  /\ DOMAIN r \subseteq DOMAIN bs0 \cup VarNames(p) \cup PlainCounterparts(p)
  /\ Holds(p, m, r, bs0)

\* res is a sequence of returned bindings
Sound(p, m, bs0, res) == \A i \in DOMAIN res : SoundOne(p, m, bs0, res[i])

(***************************************************************************)
(* C02.  The reference matcher: the set of all extensions of bs under      *)
(* which p is embedded in m.  Variables bind exactly the message value at  *)
(* their position; maps join the solutions of their keys; arrays range     *)
(* over injections of the non-variable elements and then over the          *)
(* left-over elements for the variable; a property variable ranges over    *)
(* the message's keys.                                                     *)
(***************************************************************************)
RECURSIVE M(_, _, _), ObjM(_, _, _, _), ArrM(_, _, _, _)
VarM(p, m, bs) ==
  LET name == VName(p) plain == VPlain(p) IN
  IF IsAnonP(p) THEN {bs}
  ELSE IF IsIneqP(p) /\ name \in DOMAIN bs /\ IsNum(bs[name]) /\ IsNum(m) THEN
       IF Rel(VOp(p), m[2], bs[name][2])
       THEN IF plain \in DOMAIN bs
            THEN (IF bs[plain] = m THEN {bs} ELSE {})
            ELSE {Put(bs, plain, m)}
       ELSE {}
  ELSE IF name \in DOMAIN bs THEN (IF Sub(bs[name], m) THEN {bs} ELSE {})
  ELSE {Put(bs, name, m)}

M(p, m, bs) ==
  CASE IsVarP(p) -> VarM(p, m, bs)
    [] IsObj(p) -> IF ~IsObj(m) THEN {} ELSE ObjM(DOMAIN p[2], p[2], m[2], {bs})
    [] Tag(p) = "pobj" -> IF ~IsObj(m) THEN {} ELSE
          UNION { UNION { M(p[3], m[2][k], b) : b \in M(p[2], Str(k), bs) } : k \in DOMAIN m[2] }
    [] IsArr(p) -> IF ~IsArr(m) THEN {} ELSE
          LET vars   == SelectSeq(p[2], IsVarP)
              consts == SelectSeq(p[2], LAMBDA e : ~IsVarP(e))
              pre    == ArrM(consts, m[2], {}, bs)     \* pairs <<bindings, used indexes>>
          IN IF vars = <<>> THEN {x[1] : x \in pre}
             ELSE LET all == UNION { UNION { M(vars[1], m[2][j], x[1]) : j \in DOMAIN m[2] \ x[2] } : x \in pre }
                  IN IF all = {} /\ IsOptP(vars[1]) THEN {x[1] : x \in pre} ELSE all
    [] OTHER -> IF p = m THEN {bs} ELSE {}
ObjM(ks, po, mo, B) ==
  IF ks = {} \/ B = {} THEN B
  ELSE LET k == CHOOSE x \in ks : TRUE IN
       IF k \in DOMAIN mo THEN ObjM(ks \ {k}, po, mo, UNION { M(po[k], mo[k], b) : b \in B })
       ELSE IF IsOptP(po[k]) THEN ObjM(ks \ {k}, po, mo, B) ELSE {}
ArrM(ps, ms, used, bs) ==
  IF ps = <<>> THEN {<<bs, used>>}
  ELSE UNION { UNION { ArrM(Tail(ps), ms, used \cup {j}, b2) : b2 \in M(Head(ps), ms[j], bs) }
               : j \in DOMAIN ms \ used }

Embeds(p, m, bs) == M(p, m, bs)

\* the class for which the result is claimed to be exactly the embeddings:
\* variables plain, each occurring once, none pre-bound (bs0 empty), arrays sets
ExactClass(p, m, bs0) ==
  LET occ == VarOccs(p) IN
  /\ InFragment(p)
  /\ DOMAIN bs0 = {}
  /\ \A i \in DOMAIN occ : VKind(occ[i]) = "plain"
  /\ \A i, j \in DOMAIN occ : i # j => VName(occ[i]) # VName(occ[j])
  /\ NoDupMembers(m)
  /\ NoDupMembers(p)

Exact(p, m, res) == SeqRange(res) = M(p, m, EmptyFn)

\* planted assignment sigma found among the results
PlantedFound(sigma, res) ==
  \E i \in DOMAIN res : \A v \in DOMAIN sigma : v \in DOMAIN res[i] /\ res[i][v] = sigma[v]

\* side conditions of C02's quantifier, re-checked here so that a generator
\* slip cannot become an alarm: fragment, arrays are sets, repeated variables
\* take scalar values, every non-anonymous variable is planted, and the
\* instantiated pattern really is contained in the message.
RECURSIVE ArrVarDiffers(_, _)
ArrVarDiffers(p, sigma) ==   \* a value planted under an array variable differs from the array's constant members
  CASE IsArr(p) -> /\ \A i, j \in DOMAIN p[2] :
                        (IsVarP(p[2][i]) /\ ~IsVarP(p[2][j]) /\ VName(p[2][i]) \in DOMAIN sigma)
                          => sigma[VName(p[2][i])] # p[2][j]
                   /\ \A i \in DOMAIN p[2] : ArrVarDiffers(p[2][i], sigma)
    [] Tag(p) = "pobj" -> ArrVarDiffers(p[3], sigma)
    [] IsObj(p) -> \A k \in DOMAIN p[2] : ArrVarDiffers(p[2][k], sigma)
    [] OTHER -> TRUE

\* the message really is the instantiated pattern plus extras: at every variable
\* position the message holds exactly the planted value
RECURSIVE PHolds(_, _, _), PHoldsArr(_, _, _, _)
PHolds(p, m, s) ==
  CASE IsVarP(p) -> IsAnonP(p) \/ (VName(p) \in DOMAIN s /\ s[VName(p)] = m)
    [] IsObj(p) -> /\ IsObj(m)
                   /\ \A k \in DOMAIN p[2] :
                        IF k \in DOMAIN m[2] THEN PHolds(p[2][k], m[2][k], s)
                        ELSE IsOptP(p[2][k]) /\ VName(p[2][k]) \notin DOMAIN s
    [] Tag(p) = "pobj" -> /\ IsObj(m)
                          /\ \E k \in DOMAIN m[2] : PHolds(p[2], Str(k), s) /\ PHolds(p[3], m[2][k], s)
    [] IsArr(p) -> IsArr(m) /\ PHoldsArr(p[2], m[2], {}, s)
    [] OTHER -> p = m
PHoldsArr(ps, ms, used, s) ==
  IF ps = <<>> THEN TRUE
  ELSE \/ \E j \in DOMAIN ms \ used : PHolds(Head(ps), ms[j], s) /\ PHoldsArr(Tail(ps), ms, used \cup {j}, s)
       \/ IsOptP(Head(ps)) /\ VName(Head(ps)) \notin DOMAIN s /\ PHoldsArr(Tail(ps), ms, used, s)

PlantedOK(p, m, sigma) ==
  LET occ == VarOccs(p) IN
  /\ InFragment(p)
  /\ NoDupScalars(m)
  /\ NoDupMembers(p)
  /\ DOMAIN sigma \subseteq VarNames(p)
  /\ \A i \in DOMAIN occ : VKind(occ[i]) \in {"plain", "opt"}
  /\ \A i \in DOMAIN occ : VKind(occ[i]) = "plain" => VName(occ[i]) \in DOMAIN sigma
  /\ \A i, j \in DOMAIN occ : (i # j /\ VName(occ[i]) = VName(occ[j]) /\ VName(occ[i]) \in DOMAIN sigma)
                                 => IsScalar(sigma[VName(occ[i])])
  /\ ArrVarDiffers(p, sigma)
  /\ PHolds(p, m, sigma)
=============================================================================
