---------------------------- MODULE Trace_Timers ----------------------------
(***************************************************************************)
(* Linearizability judge for histories recorded from a real timer service  *)
(* (C17).  Events, in the order of the recorder's sequence number, each    *)
(* with a monotonic time t in ms:                                          *)
(*   call(op, kind, id, d)  ret(op, res)  fire(token)  hook(..)  snap(pending) *)
(* TLC chooses the linearization point of every request between its call   *)
(* and return, and the instant (FireLin) at which a timer stops being       *)
(* pending, which precedes the observed firing of its message.             *)
(***************************************************************************)
EXTENDS TimersProp, Json, SequencesExt

H == ndJsonDeserialize("cases.ndjson")
VARIABLES h, l, pend, results, st, emitted, mk
vars == <<h, l, pend, results, st, emitted, mk>>
Evs == H[h].events
Ev == Evs[l]
Empty == [x \in {} |-> 0]
With(f, k, v) == [x \in DOMAIN f \cup {k} |-> IF x = k THEN v ELSE f[x]]

Init == /\ h \in DOMAIN H /\ l = 1 /\ pend = {} /\ results = Empty /\ st = Empty /\ emitted = {}
        /\ mk \in (IF H[h].impl = "sio" THEN {"replace", "keep"} ELSE {"none"})

Call == /\ l <= Len(Evs) /\ Ev.ev = "call"
        /\ pend' = pend \cup {[op |-> Ev.op, kind |-> Ev.kind, id |-> Ev.id, d |-> Ev.d, t |-> Ev.t]}
        /\ l' = l + 1 /\ UNCHANGED <<h, results, st, emitted, mk>>
Lin == \E o \in pend : LET r == ApplyReq(o, st, H[h].impl, mk) IN
         /\ pend' = pend \ {o} /\ results' = With(results, o.op, r.res) /\ st' = r.st
         /\ UNCHANGED <<h, l, emitted, mk>>
Ret == /\ l <= Len(Evs) /\ Ev.ev = "ret" /\ Ev.op \in DOMAIN results /\ results[Ev.op] = Ev.res
       /\ l' = l + 1 /\ UNCHANGED <<h, pend, results, st, emitted, mk>>
\* the timer stops being pending (its id becomes free); only useful if its firing is observed later
WillFire(k) == \E j \in l..Len(Evs) : Evs[j].ev = "fire" /\ Evs[j].token = k
FireLin == \E k \in DOMAIN st :
             /\ st[k].status = "pending" /\ WillFire(k)
             /\ st' = With(st, k, [st[k] EXCEPT !.status = "fired"])
             /\ UNCHANGED <<h, l, pend, results, emitted, mk>>
\* the observed firing: of a timer that has fired (so: not cancelled), once, not before its due time
Fire == /\ l <= Len(Evs) /\ Ev.ev = "fire"
        /\ Ev.token \in DOMAIN st /\ st[Ev.token].status = "fired" /\ Ev.token \notin emitted
        /\ Ev.t >= st[Ev.token].t + st[Ev.token].d
        /\ emitted' = emitted \cup {Ev.token}
        /\ l' = l + 1 /\ UNCHANGED <<h, pend, results, st, mk>>
Hook == /\ l <= Len(Evs) /\ Ev.ev = "hook" /\ l' = l + 1 /\ UNCHANGED <<h, pend, results, st, emitted, mk>>
\* final snapshot, taken after every short delay has long passed: what the service reports as
\* pending is exactly the pending timers, and only timers with a long delay can still be pending
Snap == /\ l <= Len(Evs) /\ Ev.ev = "snap" /\ pend = {}
        /\ {Ev.pending[i] : i \in DOMAIN Ev.pending} = PendingIdsOf(st)
        /\ \A k \in DOMAIN st : st[k].status = "pending" => st[k].d >= H[h].long
        /\ \A k \in DOMAIN st : st[k].status = "fired" => k \in emitted
        /\ l' = l + 1 /\ UNCHANGED <<h, pend, results, st, emitted, mk>>

Next == Call \/ Lin \/ Ret \/ FireLin \/ Fire \/ Hook \/ Snap
Spec == Init /\ [][Next]_vars

ASSUME TLCSet(1, {}) /\ TLCSet(2, [i \in DOMAIN H |-> 0])
Mark == /\ (l > TLCGet(2)[h]) => TLCSet(2, [TLCGet(2) EXCEPT ![h] = l])
        /\ (l = Len(Evs) + 1) => TLCSet(1, TLCGet(1) \cup {h})
Post ==
  LET rej == SetToSeq(DOMAIN H \ TLCGet(1))
      N(i, e) == Cardinality({j \in DOMAIN H[i].events : H[i].events[j].ev = e})
      \* A data race reported by the race detector is recorded as a "race" event, which no action
      \* accepts ("timer activity never corrupts crew state").  Signature of the known finding:
      \* every race event of the history is between a sio timer goroutine and the crew loop.
      Races(i) == {e \in DOMAIN H[i].events : H[i].events[e].ev = "race"}
      SigsOf(i) == IF Races(i) # {} /\ (\A e \in Races(i) : H[i].events[e].sig = "sio-timer-goroutine-vs-crew-loop")
                                    /\ (\A e \in DOMAIN H[i].events : H[i].events[e].ev = "race")
                   THEN {"SioTimerGoroutineRacesCrewLoop"} ELSE {}
  IN /\ ndJsonSerialize("judge_bad.ndjson",
          [k \in DOMAIN rej |-> [id |-> H[rej[k]].id, line |-> rej[k],
                                 c17 |-> IF Races(rej[k]) # {} THEN {"data-race"} ELSE {"not-a-behaviour-of-TimersProp"},
                                 stuckAt |-> TLCGet(2)[rej[k]], sigs |-> SigsOf(rej[k])]])
     /\ ndJsonSerialize("judge_stats.ndjson",
          <<[lines |-> Len(H),
             stats |-> [histories |-> Len(H),
                        requests |-> FoldLeft(LAMBDA a, i : a + N(i, "call"), 0, [i \in DOMAIN H |-> i]),
                        firings |-> FoldLeft(LAMBDA a, i : a + N(i, "fire"), 0, [i \in DOMAIN H |-> i]),
                        realised |-> Cardinality({i \in DOMAIN H : H[i].realised}),
                        accepted |-> Cardinality(TLCGet(1))]]>>)
=============================================================================
