SPECIFICATION Spec
CONSTANTS Cfg <- TheCfg
 Wedge = TRUE
 MakeOnPending = "replace"
 FireDropsBs = TRUE
 MaxN = 4
CONSTRAINT Bound
VIEW View
INVARIANT DoorsWellFormed
INVARIANT StoreCovers
INVARIANT GenUnique
INVARIANT StoreIsLive
PROPERTY RestartInvisible
CHECK_DEADLOCK FALSE
