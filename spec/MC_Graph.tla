------------------------------ MODULE MC_Graph ------------------------------
(***************************************************************************)
(* All specification graphs with up to three nodes over a small vocabulary *)
(* (<= 2 branches per node for graphs of one or two nodes, <= 1 for three),*)
(* including unreachable nodes, self-loops, native and source actions,     *)
(* guards, missing and variable targets and empty branch lists.  TLC       *)
(* checks that the facts are mutually consistent and exports every graph.  *)
(***************************************************************************)
EXTENDS SpecGraph, Json, IOUtils
CONSTANT Export

SeqsUpTo(n, S) == UNION {[1..k -> S] : k \in 0..n}
Tgts(ns) == {<<"lit", n>> : n \in ns \cup {"zz"}} \cup {<<"ref", "v", "@v">>}
BrKinds(ns) == [target : Tgts(ns), guard : {"none", "source"}, ginterp : {"ecmascript"}]
NodeKinds(ns, maxbr) == [action : {"none", "native", "source"}, interp : {"ecmascript"}, nobr : {FALSE},
                         branches : SeqsUpTo(maxbr, BrKinds(ns))]
GraphsOver(ns, maxbr) == [ns -> NodeKinds(ns, maxbr)]
Graphs == GraphsOver({"start"}, 2) \cup GraphsOver({"a"}, 2)
          \cup GraphsOver({"start", "a"}, 2) \cup GraphsOver({"a", "b"}, 1)
          \cup GraphsOver({"start", "a", "b"}, 1)

VARIABLE g
Init == g \in Graphs
Next == UNCHANGED g
Spec == Init /\ [][Next]_g

Consistent == /\ TerminalNodes(g) \subseteq Nodes(g)
              /\ Orphans(g) \cap LiteralTargets(g) = {}
              /\ MissingTargets(g) \cap Nodes(g) = {}
              /\ NGuards(g) <= NBranches(g)
              /\ (NBranches(g) = 0 => TerminalNodes(g) = Nodes(g))
Emit == Export => Serialize(ToJson([g |-> g]) \o "\n", "export.ndjson",
                  [format |-> "TXT", charset |-> "UTF-8", openOptions |-> <<"WRITE", "CREATE", "APPEND">>]).exitValue = 0
=============================================================================
