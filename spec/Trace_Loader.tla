---------------------------- MODULE Trace_Loader ----------------------------
EXTENDS Loader, Json
Trace == ndJsonDeserialize("cases.ndjson")
VARIABLES l, bad, stats
vars == <<l, bad, stats>>

DiffReps(reps) == {reps[i].repr : i \in {j \in DOMAIN reps : reps[j].load # "" \/ reps[j].compile # "" \/ reps[j].behaviours # Ref(reps).behaviours}}
C13Labels(c) ==
  IF c.kind # "load" THEN {} ELSE
  IF c.unknown # "" THEN (IF ~Rejected(c.reps) THEN {"unknown-" \o c.unknown \o "-not-rejected-at-compile-time"} ELSE {})
  ELSE (IF ~SameBehaviour(c.reps) THEN {"representation-changes-behaviour"} ELSE {})
       \cup (IF ~NoCrash(c.reps) THEN {"crash"} ELSE {})
\* C07 (documents): loading and compiling any document yields a specification or an error
\* C13 (documents): what is rejected at compile time is rejected every time - by a second Compile of the same object, and
\* when the same document is read and compiled once more
MalformedC13Labels(c) ==
  IF c.kind # "malformed" THEN {} ELSE
  (IF \E i \in DOMAIN c.results : "compile2" \in DOMAIN c.results[i] /\ c.results[i].compile = "error" /\ c.results[i].compile2 # "error"
   THEN {"recompile-accepts-what-compile-rejected"} ELSE {})

C07Labels(c) ==
  IF c.kind # "malformed" THEN {} ELSE
  IF \E i \in DOMAIN c.results : c.results[i].outcome # "returned" THEN {"crash-on-document"} ELSE {}

Init == l = 1 /\ bad = <<>> /\ stats = [specs |-> 0, renderings |-> 0, unknowns |-> 0, documents |-> 0]
Next ==
  /\ l <= Len(Trace)
  /\ l' = l + 1
  /\ LET c == Trace[l] a == C13Labels(c) \cup MalformedC13Labels(c) b == C07Labels(c) IN
     /\ bad' = (IF a \cup b = {} THEN bad
                ELSE Append(bad, [id |-> c.id, line |-> l, c13 |-> a, c07 |-> b,
                                  differing |-> IF c.kind = "load" /\ c.unknown = "" THEN DiffReps(c.reps) ELSE {}, sigs |-> {}]))
     /\ stats' = [specs |-> stats.specs + (IF c.kind = "load" THEN 1 ELSE 0),
                  renderings |-> stats.renderings + (IF c.kind = "load" THEN Len(c.reps) ELSE 0),
                  unknowns |-> stats.unknowns + (IF c.kind = "load" /\ c.unknown # "" THEN 1 ELSE 0),
                  documents |-> stats.documents + (IF c.kind = "malformed" THEN 1 ELSE 0)]
Spec == Init /\ [][Next]_vars
Done == (l = Len(Trace) + 1) =>
          /\ ndJsonSerialize("judge_bad.ndjson", bad)
          /\ ndJsonSerialize("judge_stats.ndjson", <<[stats |-> stats, lines |-> Len(Trace)]>>)
Accepted == TLCGet("stats").diameter - 1 = Len(Trace)
=============================================================================
