SPECIFICATION Spec
CONSTANTS Cfg <- TheCfg
 EmitOnFailedWrite = FALSE
 MaxN = 5
CONSTRAINT Bound
VIEW View
INVARIANT MemEqualsStore
INVARIANT DoorsWellFormed
INVARIANT EmissionsPersisted
CHECK_DEADLOCK FALSE
INVARIANT Export
