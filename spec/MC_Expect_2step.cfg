SPECIFICATION Spec
CONSTANTS MaxOuts = 1
 MaxLines = 2
 TwoSteps = TRUE
 Export = TRUE
INVARIANT ToolSound
INVARIANT Emit
CHECK_DEADLOCK FALSE
