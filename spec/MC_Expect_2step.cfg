SPECIFICATION Spec
CONSTANTS MaxOuts = 1
 MaxLines = 2
 Candidates = FALSE
 Timeouts = FALSE
 TwoSteps = TRUE
 Export = TRUE
INVARIANT ToolSound
INVARIANT Emit
CHECK_DEADLOCK FALSE
