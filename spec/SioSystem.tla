----------------------------- MODULE SioSystem -----------------------------
(***************************************************************************)
(* The single-loop crew with its host as a state machine.  The host        *)
(* submits inputs (messages, crew operations addressed to the captain) in  *)
(* any order; a pending timer may fire at any moment (its message joins    *)
(* the crew's input queue and is processed later, like any input); the     *)
(* host applies every reported change to its store; the process may crash  *)
(* at any point between two processing steps and is restarted from the     *)
(* store.  SystemOps.tla has the operators; MC_SioSystem.tla a scenario     *)
(* with its properties; Trace_System.tla checks recorded runs of the real  *)
(* sio.Crew against THIS next-state relation, step by step.                *)
(***************************************************************************)
EXTENDS SystemOps

VARIABLES cs,      \* the live crew
          store,   \* what the host has persisted: [ms, tm : [bs, map]]
          inq,     \* fired timer messages not yet processed (lost in a crash)
          tdirty,  \* a timer fired since the last report
          out,     \* emissions reported by the last processing step
          det,     \* FALSE once the model left the deterministic fragment
          env,     \* what the environment has done so far: [direct, crashed : BOOLEAN]
          hist     \* labels of the actions taken (behaviour export; not part of the VIEW)
vars == <<cs, store, inq, tdirty, out, det, env, hist>>

Inputs == Cfg.inputs
InitCs == [ms |-> Cfg.init, tbs |-> EmptyFn, tmap |-> EmptyFn, cbs |-> EmptyFn, gen |-> 0]
Init == /\ cs = InitCs
        /\ store = [ms |-> Cfg.init, tm |-> [bs |-> EmptyFn, map |-> EmptyFn]]
        /\ inq = <<>> /\ tdirty = FALSE /\ out = <<>> /\ det = TRUE /\ hist = <<>>
        /\ env = [direct |-> FALSE, crashed |-> FALSE]

ItemOf(i) == LET x == Inputs[i] IN
             IF x.k = "msg" THEN Item(x.m, NoOp) ELSE Item(x.m, x)

Processed(it) ==
  LET r == Process(cs, it) IN
  /\ cs' = r.cs
  /\ out' = r.emitted
  /\ det' = (det /\ r.det)
  /\ store' = StoreAfter(store, r.cs, r.tmoved, tdirty)
  /\ tdirty' = FALSE

Submit(i) == /\ Processed(ItemOf(i))
             /\ inq' = inq
             /\ env' = [env EXCEPT !.direct = env.direct \/ Inputs[i].direct]
             /\ hist' = Append(hist, <<"s", i>>)
Deliver   == /\ inq # <<>>
             /\ Processed(Item(Head(inq), NoOp))
             /\ inq' = Tail(inq)
             /\ hist' = Append(hist, <<"d", 0>>)
             /\ env' = env
Fire(id)  == /\ id \in DOMAIN cs.tmap
             /\ cs' = [cs EXCEPT !.tmap = Drop(cs.tmap, id)]
             /\ inq' = Append(inq, cs.tmap[id].msg)
             /\ tdirty' = TRUE
             /\ hist' = Append(hist, <<"f", id>>)
             /\ UNCHANGED <<store, out, det, env>>
Restart   == /\ cs' = Boot(store, cs.gen)
             /\ inq' = <<>> /\ tdirty' = FALSE /\ out' = <<>>
             /\ hist' = Append(hist, <<"r", 0>>)
             /\ env' = [env EXCEPT !.crashed = TRUE]
             /\ UNCHANGED <<store, det>>

Next == \/ \E i \in DOMAIN Inputs : Submit(i)
        \/ Deliver
        \/ \E id \in DOMAIN cs.tmap : Fire(id)
        \/ Restart
Spec == Init /\ [][Next]_vars

(***************************************************************************)
(* System-level properties.                                                *)
(***************************************************************************)
\* C15 for the whole system: whenever no firing is unreported, the store is the live crew
StoreIsLive == ~tdirty => /\ store.ms = cs.ms
                          /\ store.tm.map = MapProj(cs.tmap)
                          /\ store.tm.bs = cs.tbs
\* ... even while a firing is unreported the store never lacks a machine or a pending timer
StoreCovers == /\ store.ms = cs.ms
               /\ \A id \in DOMAIN cs.tmap : id \in DOMAIN store.tm.map /\ store.tm.map[id] = cs.tmap[id].msg
\* a restart at a moment without an unreported firing and with an empty queue is invisible
\* (the captain is not persisted: it is back in its initial state)
RestartInvisible == [][(hist' = Append(hist, <<"r", 0>>) /\ ~tdirty /\ inq = <<>>)
                         => (cs'.ms = cs.ms /\ MapProj(cs'.tmap) = MapProj(cs.tmap) /\ cs'.tbs = cs.tbs)]_vars
\* C17: generations are unique, so a timer instance is in the map at most once and fires at most once
GenUnique == \A a, b \in DOMAIN cs.tmap : a # b => cs.tmap[a].u # cs.tmap[b].u
=============================================================================
