---------------------------- MODULE JSONValue ----------------------------
(***************************************************************************)
(* The value universe shared by every specification of the suite.          *)
(*                                                                         *)
(* TLC has no reals, no null and cannot look inside a string, and it       *)
(* refuses to compare values of different types.  Every JSON value is      *)
(* therefore a tuple whose first element is a string tag:                  *)
(*                                                                         *)
(*   <<"null">>  <<"bool","t"|"f">>  <<"num",k>>  <<"str",s>>              *)
(*   <<"arr", <<v1,...>> >>   <<"obj", [key |-> v, ...]>>                   *)
(*                                                                         *)
(* k counts halves (<<"num",3>> is 1.5), so integers and simple fractions  *)
(* keep their order.  Objects are TLA+ functions with string domains, so   *)
(* key lookup, containment and "bindings as the thing matched against"     *)
(* need no association lists.                                              *)
(***************************************************************************)
EXTENDS Integers, Sequences, FiniteSets, TLC

Tag(v) == v[1]

Null    == <<"null">>
True    == <<"bool", "t">>
False   == <<"bool", "f">>
Num(k)  == <<"num", k>>
Str(s)  == <<"str", s>>
Arr(s)  == <<"arr", s>>
Obj(f)  == <<"obj", f>>

IsNull(v) == Tag(v) = "null"
IsBool(v) == Tag(v) = "bool"
IsNum(v)  == Tag(v) = "num"
IsStr(v)  == Tag(v) = "str"
IsArr(v)  == Tag(v) = "arr"
IsObj(v)  == Tag(v) = "obj"
IsScalar(v) == Tag(v) \in {"null", "bool", "num", "numx", "str"}

EmptyFn == [k \in {} |-> Null]
EmptyObj == Obj(EmptyFn)

SeqRange(s) == {s[i] : i \in DOMAIN s}

\* f with key k set to v (adds the key when absent)
Put(f, k, v) == [x \in DOMAIN f \cup {k} |-> IF x = k THEN v ELSE f[x]]
\* f without key k
Drop(f, k) == [x \in DOMAIN f \ {k} |-> f[x]]
\* f restricted to keys in S
RestrictTo(f, S) == [x \in DOMAIN f \cap S |-> f[x]]
\* g overrides f
Merge(f, g) == [x \in DOMAIN f \cup DOMAIN g |-> IF x \in DOMAIN g THEN g[x] ELSE f[x]]

\* number of occurrences of x in sequence s
Count(x, s) == Cardinality({i \in DOMAIN s : s[i] = x})
\* two sequences are equal as bags
SameBag(s, t) == /\ Len(s) = Len(t)
                 /\ \A i \in DOMAIN s : Count(s[i], s) = Count(s[i], t)

(***************************************************************************)
(* Structural recursion helpers.                                           *)
(***************************************************************************)
RECURSIVE Depth(_)
Depth(v) ==
  CASE IsObj(v) -> IF DOMAIN v[2] = {} THEN 1
                   ELSE 1 + (CHOOSE d \in {Depth(v[2][k]) : k \in DOMAIN v[2]} :
                               \A e \in {Depth(v[2][k]) : k \in DOMAIN v[2]} : e <= d)
    [] IsArr(v) -> IF v[2] = <<>> THEN 1
                   ELSE 1 + (CHOOSE d \in {Depth(v[2][i]) : i \in DOMAIN v[2]} :
                               \A e \in {Depth(v[2][i]) : i \in DOMAIN v[2]} : e <= d)
    [] OTHER -> 0

\* no array anywhere inside v has two equal scalar members ("arrays are sets")
RECURSIVE NoDupScalars(_)
NoDupScalars(v) ==
  CASE IsObj(v) -> \A k \in DOMAIN v[2] : NoDupScalars(v[2][k])
    [] IsArr(v) -> /\ \A i, j \in DOMAIN v[2] :
                        (i # j /\ IsScalar(v[2][i])) => v[2][i] # v[2][j]
                   /\ \A i \in DOMAIN v[2] : NoDupScalars(v[2][i])
    [] OTHER -> TRUE

\* no array anywhere inside v has two equal members at all
RECURSIVE NoDupMembers(_)
NoDupMembers(v) ==
  CASE IsObj(v) -> \A k \in DOMAIN v[2] : NoDupMembers(v[2][k])
    [] IsArr(v) -> /\ \A i, j \in DOMAIN v[2] : (i # j) => v[2][i] # v[2][j]
                   /\ \A i \in DOMAIN v[2] : NoDupMembers(v[2][i])
    [] OTHER -> TRUE
=============================================================================
