--------------------------- MODULE Trace_Persist ---------------------------
(***************************************************************************)
(* C09.  A machine state is plain JSON data, so writing it out and reading *)
(* it back is a stuttering step of the reference machine:                  *)
(*                                                                         *)
(*     Persist(st) == st                                                   *)
(*                                                                         *)
(* and inserting Persist at any message boundary of a history leaves every *)
(* later transition, binding and emission unchanged.  One line of          *)
(* cases.ndjson is one history run twice on the real engine, messages      *)
(* delivered one at a time: runA keeps the state in memory, runB marshals  *)
(* and unmarshals it (encoding/json, the State's documented JSON form) at  *)
(* the boundaries in saveAt.  PersistUnobservable: the two runs are equal  *)
(* step by step.                                                           *)
(***************************************************************************)
EXTENDS Machine, Findings, Json

Trace == ndJsonDeserialize("cases.ndjson")
VARIABLES l, bad, stats
vars == <<l, bad, stats>>

Persist(st) == st

NormStep(s) == [state |-> NormSt(s.state), emitted |-> s.emitted, stopped |-> s.stopped]
PersistUnobservable(c) ==
  /\ c.errA = c.errB
  /\ Len(c.runA) = Len(c.runB)
  /\ \A i \in DOMAIN c.runA : NormStep(c.runA[i]) = NormStep(c.runB[i])

Applies(c) == DetSpec(c.spec) /\ c.errA = ""
Labels(c) == IF Applies(c) /\ ~PersistUnobservable(c) THEN {"persist-observable"} ELSE {}

Moved(c) == \E i \in DOMAIN c.runA : StNode(c.runA[i].state) # "n0"
Init == l = 1 /\ bad = <<>> /\ stats = [applies |-> 0, moved |-> 0, errorstates |-> 0, saves |-> 0]
Next ==
  /\ l <= Len(Trace)
  /\ l' = l + 1
  /\ LET c == Trace[l] lab == Labels(c) IN
     /\ bad' = (IF lab = {} THEN bad ELSE Append(bad, [id |-> c.id, line |-> l, c09 |-> lab, sigs |-> PersistSigs(c)]))
     /\ stats' = [applies |-> stats.applies + (IF Applies(c) THEN 1 ELSE 0),
                  moved |-> stats.moved + (IF Moved(c) THEN 1 ELSE 0),
                  errorstates |-> stats.errorstates + (IF \E i \in DOMAIN c.runA : StNode(c.runA[i].state) = "error" THEN 1 ELSE 0),
                  saves |-> stats.saves + Len(c.saveAt)]
Spec == Init /\ [][Next]_vars
Done == (l = Len(Trace) + 1) =>
          /\ ndJsonSerialize("judge_bad.ndjson", bad)
          /\ ndJsonSerialize("judge_stats.ndjson", <<[stats |-> stats, lines |-> Len(Trace)]>>)
Accepted == TLCGet("stats").diameter - 1 = Len(Trace)
=============================================================================
