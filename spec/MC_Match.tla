------------------------------ MODULE MC_Match ------------------------------
(***************************************************************************)
(* Bounded universe of (pattern, message, bindings) triples over a small   *)
(* alphabet.  TLC enumerates it completely (one initial state per case),   *)
(* checks on the specification alone that the reference matcher agrees     *)
(* with the declarative statements (RefSound, RefExact), and exports every *)
(* case for the driver that feeds it to the real match.Match.              *)
(***************************************************************************)
EXTENDS Match, Json, IOUtils

CONSTANT Level    \* 1: patterns and messages of depth <= 1; 2: depth <= 2 over a reduced alphabet

ObjOver(K, V) == UNION {[S -> V] : S \in SUBSET K}
ArrUpTo(n, V) == UNION {[1..k -> V] : k \in 0..n}

VX == <<"var", "plain", "?x", "?x", "">>
VY == <<"var", "plain", "?y", "?y", "">>
VA == <<"var", "anon", "?", "?", "">>
VO == <<"var", "opt", "??o", "??o", "">>
VN == <<"var", "ineq", "?<n", "?n", "<">>

Scal5 == {Num(0), Num(2), Str("a"), True, Null}
Scal3 == {Num(0), Str("a"), Null}
Scal2 == {Num(0), Str("a")}
Vars5 == {VX, VY, VA, VO, VN}
Vars3 == {VX, VA, VO}

K2 == {"a", "b"}

\* ---- messages
Msg0 == Scal5
Msg1 == Msg0 \cup {Obj(f) : f \in ObjOver(K2, Msg0)} \cup {Arr(s) : s \in ArrUpTo(2, Msg0)}
Msg1r == Scal2 \cup {Obj(f) : f \in ObjOver(K2, Scal2)} \cup {Arr(s) : s \in ArrUpTo(2, Scal2)}
Msg2 == Msg1r \cup {Obj(f) : f \in ObjOver(K2, Msg1r)} \cup {Arr(s) : s \in ArrUpTo(2, Msg1r)}

\* ---- patterns
Pat0 == Scal3 \cup Vars5
Pat1 == Pat0 \cup {Obj(f) : f \in ObjOver(K2, Pat0)}
             \cup {<<"pobj", k, v>> : k \in {VX, VA}, v \in Pat0}
             \cup {Arr(s) : s \in ArrUpTo(2, Pat0)}
Pat0r == Scal2 \cup Vars3
Pat1r == Pat0r \cup {Obj(f) : f \in ObjOver(K2, Pat0r)}
               \cup {<<"pobj", VY, v>> : v \in Pat0r}
               \cup {Arr(s) : s \in ArrUpTo(2, Pat0r)}
\* depth 2: one-key maps and arrays of up to two members over the depth-1 patterns, two-key maps over the depth-0 ones and
\* one nested pattern (the full product - 12,091 patterns x 722 messages x 6 bindings - is 52 million cases, more than a
\* run can enumerate, export, drive and judge)
Pat2 == {Obj(f) : f \in ObjOver({"a"}, Pat1r)}
        \cup {Arr(s) : s \in ArrUpTo(1, Pat1r)}
        \cup {Obj([k \in K2 |-> IF k = "a" THEN q ELSE r]) : q \in Pat1r, r \in Pat0r}
        \cup {Arr(<<q, r>>) : q \in Pat1r, r \in Scal2}

\* ---- initial bindings
BsU == { EmptyFn,
         [k \in {"?x"} |-> Str("a")],
         [k \in {"?x"} |-> Obj([j \in {"a"} |-> Num(0)])],
         [k \in {"?<n"} |-> Num(2)],
         [k \in {"?<n", "?n"} |-> IF k = "?n" THEN Num(0) ELSE Num(2)],
         [k \in {"??o"} |-> Num(0)] }

PatU == IF Level = 1 THEN Pat1 ELSE Pat2
MsgU == IF Level = 1 THEN Msg1 ELSE Msg2

VARIABLE c
Init == c \in {x \in [p : PatU, m : MsgU, bs : BsU] : InFragment(x.p) /\ IneqBound(x.p, x.bs)}
Next == UNCHANGED c
Spec == Init /\ [][Next]_c

(***************************************************************************)
(* Specification-level theorems, checked on every case.                    *)
(***************************************************************************)
\* the reference matcher only returns bindings that satisfy the C01 statement
RefSound == \A r \in M(c.p, c.m, c.bs) : SoundOne(c.p, c.m, c.bs, r)

\* brute force: every assignment of sub-values / keys of the message to the variables
RECURSIVE SubValues(_)
SubValues(v) ==
  {v} \cup (CASE IsObj(v) -> UNION {SubValues(v[2][k]) : k \in DOMAIN v[2]} \cup {Str(k) : k \in DOMAIN v[2]}
              [] IsArr(v) -> UNION {SubValues(v[2][i]) : i \in DOMAIN v[2]}
              [] OTHER -> {})
\* for the exact class the reference matcher returns exactly the assignments under
\* which the instantiated pattern is contained in the message with the variables
\* standing for the message's values at their positions
RefExact == ExactClass(c.p, c.m, c.bs) =>
              M(c.p, c.m, EmptyFn) = {s \in [VarNames(c.p) -> SubValues(c.m)] : PHolds(c.p, c.m, s)}

\* export for the driver
Emit == Serialize(ToJson([p |-> c.p, m |-> c.m, bs |-> c.bs]) \o "\n", "export.ndjson",
                  [format |-> "TXT", charset |-> "UTF-8",
                   openOptions |-> <<"WRITE", "CREATE", "APPEND">>]).exitValue = 0
=============================================================================
