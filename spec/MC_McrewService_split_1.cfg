SPECIFICATION Spec
CONSTANTS Shape = "split"
 Ops <- OpsOf
 Faults = 1
 Scenario = 1

INVARIANT Collect
POSTCONDITION Post
CHECK_DEADLOCK FALSE
