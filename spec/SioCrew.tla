------------------------------ MODULE SioCrew ------------------------------
(***************************************************************************)
(* Implementation-shaped model of the single-loop crew's change tracking   *)
(* (sio/crew.go: SetMachine, DeleteMachine, RunMachine, GetChanged with    *)
(* its suppression of a change identical to the last reported one) and of  *)
(* the reference consumer that folds the reported changes into a store     *)
(* (sio/stdio.go).  A machine's state and spec source are abstract values. *)
(* Several operations may happen before a report (a machine can emit       *)
(* captain operations, so one processed message can carry several).        *)
(* TLC explores ALL histories of up to MaxOps operations over the machine  *)
(* ids and checks ShadowEqualsLive after every report; the histories are   *)
(* exported and replayed on the real crew.                                 *)
(***************************************************************************)
EXTENDS Naturals, FiniteSets, TLC, Sequences
CONSTANTS Ids, States, Specs, MaxOps,
          Shape     \* "repaired": the code as it is now; "original": before the C15 repairs (negative control)
NONE == "none"
EMPTYSPEC == "emptyspec"     \* the report "this machine has no spec source (any more)"
NR == <<"none", "none">>     \* no report
DR == <<"deleted", "deleted">>
VARIABLES live, changed, previous, shadow, clean, nops, hist
vars == <<live, changed, previous, shadow, clean, nops, hist>>
Absent == [present |-> FALSE, st |-> "s0", spec |-> NONE]
NoChange == [touched |-> FALSE, st |-> NONE, spec |-> NONE, deleted |-> FALSE]
Init == /\ live = [i \in Ids |-> Absent] /\ changed = [i \in Ids |-> NoChange]
        /\ previous = [i \in Ids |-> NR] /\ shadow = [i \in Ids |-> [present |-> FALSE, st |-> NONE, spec |-> NONE]]
        /\ clean = TRUE /\ nops = 0 /\ hist = <<>>
Op(name) == nops < MaxOps /\ nops' = nops + 1 /\ clean' = FALSE /\ hist' = Append(hist, name)

\* SetMachine(mid, src, state): src and state may be NONE
SetMachine(i, src, s) ==
  /\ Op(<<"set", i, src, s>>)
  /\ LET have == live[i].present
         st0  == IF s = NONE THEN "s0" ELSE s
         l1   == IF have THEN (IF s # NONE /\ Shape = "repaired" THEN [live[i] EXCEPT !.st = s] ELSE live[i])
                 ELSE [present |-> TRUE, st |-> st0, spec |-> NONE]
         l2   == IF src # NONE THEN [l1 EXCEPT !.spec = src] ELSE l1
         c0   == changed[i]
         \* a new machine supersedes a pending deletion and is reported with its initial state
         c1   == IF have \/ Shape = "original" THEN c0
                 ELSE [touched |-> TRUE, st |-> st0, deleted |-> FALSE,
                       spec |-> IF c0.deleted /\ src = NONE THEN EMPTYSPEC ELSE c0.spec]
         c2   == IF src # NONE THEN [c1 EXCEPT !.touched = TRUE, !.spec = src] ELSE c1
         c3   == IF s # NONE THEN [c2 EXCEPT !.touched = TRUE, !.st = s] ELSE c2
     IN live' = [live EXCEPT ![i] = l2] /\ changed' = [changed EXCEPT ![i] = c3]
  /\ UNCHANGED <<previous, shadow>>
DeleteMachine(i) ==
  /\ Op(<<"del", i>>)
  /\ live' = [live EXCEPT ![i] = Absent]
  /\ changed' = [changed EXCEPT ![i] = [@ EXCEPT !.touched = TRUE, !.deleted = TRUE]]
  /\ UNCHANGED <<previous, shadow>>
\* a message that moves the machine (needs a spec)
RunMachine(i, s) ==
  /\ live[i].present /\ live[i].spec \notin {NONE, EMPTYSPEC} /\ live[i].st # s
  /\ Op(<<"run", i, s>>)
  /\ live' = [live EXCEPT ![i].st = s]
  /\ changed' = [changed EXCEPT ![i] = [@ EXCEPT !.touched = TRUE, !.st = s]]
  /\ UNCHANGED <<previous, shadow>>

\* GetChanged and the fold the store performs
Rep(i) == LET c == changed[i] IN IF ~c.touched THEN NR ELSE IF c.deleted THEN DR ELSE <<c.st, c.spec>>
Reported(i) == LET r == Rep(i) IN IF r # NR /\ r # DR /\ previous[i] = r THEN NR ELSE r
Report ==
  /\ ~clean /\ clean' = TRUE /\ hist' = Append(hist, <<"report">>) /\ UNCHANGED <<live, nops>>
  /\ changed' = [i \in Ids |-> NoChange]
  /\ previous' = [i \in Ids |-> LET r == Rep(i) IN IF r = NR THEN previous[i] ELSE IF r = DR THEN NR ELSE r]
  /\ shadow' = [i \in Ids |-> LET r == Reported(i) IN
                  IF r = NR THEN shadow[i]
                  ELSE IF r = DR THEN [present |-> FALSE, st |-> NONE, spec |-> NONE]
                  ELSE [present |-> TRUE,
                        st   |-> IF r[1] # NONE THEN r[1] ELSE shadow[i].st,
                        spec |-> IF r[2] # NONE THEN r[2] ELSE shadow[i].spec]]
Next == Report \/ \E i \in Ids :
          \/ \E src \in Specs \cup {NONE}, s \in States \cup {NONE} : SetMachine(i, src, s)
          \/ DeleteMachine(i)
          \/ \E s \in States : RunMachine(i, s)
Spec == Init /\ [][Next]_vars

NormSpec(x) == IF x = EMPTYSPEC THEN NONE ELSE x
ShadowEqualsLive == clean => \A i \in Ids :
   /\ shadow[i].present = live[i].present
   /\ live[i].present => /\ (IF shadow[i].st = NONE THEN "s0" ELSE shadow[i].st) = live[i].st
                         /\ NormSpec(shadow[i].spec) = NormSpec(live[i].spec)
View == <<live, changed, previous, shadow, clean, nops>>
=============================================================================
