------------------------------ MODULE MC_Interp ------------------------------
EXTENDS Interp
ScriptOf == [e \in {1, 2, 3} |->
              CASE e = 1 -> <<"defglobal", "patchproto", "mutatebindings">>
                [] e = 2 -> <<"replaceenv", "mutateprops", "defglobal">>
                [] OTHER -> <<"probe", "probe">>]
=============================================================================
