SPECIFICATION FairSpec
CONSTANTS Terminates = TRUE
 Watcher = TRUE
 CancelAfter = TRUE
 MaxT = 3
INVARIANT TimeoutReported
PROPERTY Prompt
PROPERTY NoLeak
CHECK_DEADLOCK FALSE
