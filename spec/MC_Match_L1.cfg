SPECIFICATION Spec
CONSTANT Level = 1
INVARIANT RefSound
INVARIANT RefExact
INVARIANT Emit
CHECK_DEADLOCK FALSE
