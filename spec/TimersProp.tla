----------------------------- MODULE TimersProp -----------------------------
(***************************************************************************)
(* C17, property level: the lifecycle of a timer.                          *)
(*                                                                         *)
(* Every accepted make request creates a timer instance (identified by the *)
(* request: its token) with an id, a delay and a status                    *)
(*     pending -> fired        (at most once, never before its due time)   *)
(*     pending -> cancelled    (a cancelled timer never fires)             *)
(* The service's notion of what is pending - its answers "exists" / "not   *)
(* found" and the pending set it reports - always equals the timers that   *)
(* were accepted and have neither fired nor been cancelled: an id is free  *)
(* from the moment its timer fires, and a timer re-created under that id   *)
(* (even from inside the firing's handler) is a new, pending, cancellable  *)
(* timer.  Sequential meaning of the requests over                         *)
(*   st : token -> [id, status]                                            *)
(***************************************************************************)
EXTENDS Integers, Sequences, FiniteSets, TLC

PendingTok(st, id) == {k \in DOMAIN st : st[k].id = id /\ st[k].status = "pending"}
PendingIdsOf(st)   == {st[k].id : k \in {j \in DOMAIN st : st[j].status = "pending"}}
Set(st, k, v)      == [x \in DOMAIN st \cup {k} |-> IF x = k THEN v ELSE st[x]]

\* ApplyReq(o, st, impl, mk) = [res, st]
\* A make request for an id that is pending: mcrew answers "id exists" and nothing changes.  The single-loop crew's
\* requests have no reply.  There the new timer REPLACES the pending one (mk = "replace", what the code does); a crew
\* that refuses the request and keeps the pending timer (mk = "keep") satisfies the property just as well, so the
\* judge admits either - one of them per history.  (What the code did before its repair - the request cancels the
\* pending timer and creates none, so that a timer nobody cancelled never fires - is admitted by neither.)
ApplyReq(o, st, impl, mk) ==
  IF o.kind = "add" THEN
       IF PendingTok(st, o.id) # {} THEN
            IF impl = "sio" /\ mk = "replace"
            THEN LET k == CHOOSE x \in PendingTok(st, o.id) : TRUE
                     cancelled == Set(st, k, [st[k] EXCEPT !.status = "cancelled"]) IN
                 [res |-> "ok", st |-> Set(cancelled, o.op, [id |-> o.id, status |-> "pending", d |-> o.d, t |-> o.t])]
            ELSE IF impl = "sio" THEN [res |-> "rejected", st |-> st]
            ELSE [res |-> "exists", st |-> st]
       ELSE [res |-> "ok", st |-> Set(st, o.op, [id |-> o.id, status |-> "pending", d |-> o.d, t |-> o.t])]
  ELSE IF PendingTok(st, o.id) = {} THEN [res |-> "notfound", st |-> st]
       ELSE LET k == CHOOSE x \in PendingTok(st, o.id) : TRUE IN
            [res |-> "ok", st |-> Set(st, k, [st[k] EXCEPT !.status = "cancelled"])]
=============================================================================
