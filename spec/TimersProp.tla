----------------------------- MODULE TimersProp -----------------------------
(***************************************************************************)
(* C17, property level: the lifecycle of a timer.                          *)
(*                                                                         *)
(* Every accepted make request creates a timer instance (identified by the *)
(* request: its token) with an id, a delay and a status                    *)
(*     pending -> fired        (at most once, never before its due time)   *)
(*     pending -> cancelled    (a cancelled timer never fires)             *)
(* The service's notion of what is pending - its answers "exists" / "not   *)
(* found" and the pending set it reports - always equals the timers that   *)
(* were accepted and have neither fired nor been cancelled: an id is free  *)
(* from the moment its timer fires, and a timer re-created under that id   *)
(* (even from inside the firing's handler) is a new, pending, cancellable  *)
(* timer.  Sequential meaning of the requests over                         *)
(*   st : token -> [id, status]                                            *)
(***************************************************************************)
EXTENDS Integers, Sequences, FiniteSets, TLC

PendingTok(st, id) == {k \in DOMAIN st : st[k].id = id /\ st[k].status = "pending"}
PendingIdsOf(st)   == {st[k].id : k \in {j \in DOMAIN st : st[j].status = "pending"}}
Set(st, k, v)      == [x \in DOMAIN st \cup {k} |-> IF x = k THEN v ELSE st[x]]

\* ApplyReq(o, st, impl) = [res, st]
\* A make request for an id that is pending is not accepted.  mcrew answers "id exists".
\* SioMakeOnPendingCancels (named deviation of the single-loop crew, whose requests have no
\* reply): there the request is not accepted either, and it cancels the pending timer.
ApplyReq(o, st, impl) ==
  IF o.kind = "add" THEN
       IF PendingTok(st, o.id) # {} THEN
            IF impl = "sio"
            THEN LET k == CHOOSE x \in PendingTok(st, o.id) : TRUE IN
                 [res |-> "ok", st |-> Set(st, k, [st[k] EXCEPT !.status = "cancelled"])]
            ELSE [res |-> "exists", st |-> st]
       ELSE [res |-> "ok", st |-> Set(st, o.op, [id |-> o.id, status |-> "pending", d |-> o.d, t |-> o.t])]
  ELSE IF PendingTok(st, o.id) = {} THEN [res |-> "notfound", st |-> st]
       ELSE LET k == CHOOSE x \in PendingTok(st, o.id) : TRUE IN
            [res |-> "ok", st |-> Set(st, k, [st[k] EXCEPT !.status = "cancelled"])]
=============================================================================
