----------------------------- MODULE TimersInd -----------------------------
(***************************************************************************)
(* Inductive invariant for the repaired timer protocol (Timers.tla, Shape  *)
(* = "early"), for Apalache:                                               *)
(*    apalache-mc check --init=IndInit --inv=IndInv --length=1 TimersInd.tla *)
(*    apalache-mc check --init=Init    --inv=IndInv --length=0 TimersInd.tla *)
(* Together they show that IndInv - which contains the C17 invariants      *)
(* CancelledNeverFires, AtMostOnce, PendingSet and IdFree - holds in every *)
(* reachable state for ANY number of steps (TLC explores the same model    *)
(* only up to the point where the MaxU timer instances are used up; the    *)
(* inductive check covers every state that satisfies the invariant).       *)
(* The schedule log of Timers.tla is output only and is left out here.     *)
(***************************************************************************)
EXTENDS Naturals, FiniteSets

Ids == {1, 2}
MaxU == 3
U == 1..MaxU

VARIABLES
  \* @type: Int -> Int;
  tm,
  \* @type: Int -> Int;
  idOf,
  \* @type: Int -> Str;
  pc,
  \* @type: Set(Int);
  due,
  \* @type: Set(Int);
  closed,
  \* @type: Int -> Int;
  fired,
  \* @type: Set(Int);
  cancelledEarly,
  \* @type: Int;
  nextU,
  \* @type: { id: Int, res: Str, pendingBefore: Bool };
  lastAdd

Init == /\ tm = [i \in Ids |-> 0] /\ idOf = [u \in U |-> 0] /\ pc = [u \in U |-> "none"]
        /\ due = {} /\ closed = {} /\ fired = [u \in U |-> 0] /\ cancelledEarly = {} /\ nextU = 1
        /\ lastAdd = [id |-> 0, res |-> "none", pendingBefore |-> FALSE]

Pending(u) == pc[u] # "none" /\ fired[u] = 0 /\ u \notin closed
PendingIds == {idOf[u] : u \in {v \in U : Pending(v)}}

Add(i) == /\ nextU <= MaxU
          /\ IF tm[i] # 0
             THEN /\ lastAdd' = [id |-> i, res |-> "exists", pendingBefore |-> i \in PendingIds]
                  /\ UNCHANGED <<tm, idOf, pc, nextU>>
             ELSE /\ tm' = [tm EXCEPT ![i] = nextU] /\ idOf' = [idOf EXCEPT ![nextU] = i]
                  /\ pc' = [pc EXCEPT ![nextU] = "wait"] /\ nextU' = nextU + 1
                  /\ lastAdd' = [id |-> i, res |-> "ok", pendingBefore |-> i \in PendingIds]
          /\ UNCHANGED <<due, closed, fired, cancelledEarly>>
Rem(i) == /\ tm[i] # 0
          /\ LET u == tm[i] IN
             /\ tm' = [tm EXCEPT ![i] = 0] /\ closed' = closed \cup {u}
             /\ cancelledEarly' = IF fired[u] = 0 THEN cancelledEarly \cup {u} ELSE cancelledEarly
          /\ UNCHANGED <<idOf, pc, due, fired, nextU, lastAdd>>
Tick(u) == /\ pc[u] = "wait" /\ u \notin due /\ due' = due \cup {u}
           /\ UNCHANGED <<tm, idOf, pc, closed, fired, cancelledEarly, nextU, lastAdd>>
SelectDue(u) ==
  /\ pc[u] = "wait" /\ u \in due
  /\ IF tm[idOf[u]] = u
     THEN /\ tm' = [tm EXCEPT ![idOf[u]] = 0] /\ fired' = [fired EXCEPT ![u] = @ + 1]
          /\ pc' = [pc EXCEPT ![u] = "emit"]
     ELSE /\ pc' = [pc EXCEPT ![u] = "done"] /\ UNCHANGED <<tm, fired>>
  /\ UNCHANGED <<idOf, due, closed, cancelledEarly, nextU, lastAdd>>
SelectCancelled(u) == /\ pc[u] = "wait" /\ u \in closed /\ pc' = [pc EXCEPT ![u] = "done"]
                      /\ UNCHANGED <<tm, idOf, due, closed, fired, cancelledEarly, nextU, lastAdd>>
EmitDone(u) == /\ pc[u] = "emit" /\ pc' = [pc EXCEPT ![u] = "done"]
               /\ UNCHANGED <<tm, idOf, due, closed, fired, cancelledEarly, nextU, lastAdd>>
Next == (\E i \in Ids : Add(i) \/ Rem(i))
        \/ (\E u \in U : Tick(u) \/ SelectDue(u) \/ SelectCancelled(u) \/ EmitDone(u))

\* ---- the C17 invariants of Timers.tla
CancelledNeverFires == \A u \in cancelledEarly : fired[u] = 0
AtMostOnce == \A u \in U : fired[u] <= 1
PendingSet == {i \in Ids : tm[i] # 0} = PendingIds
IdFree == lastAdd.res = "exists" => lastAdd.pendingBefore

\* ---- the strengthening that makes them inductive
TypeOK == /\ tm \in [Ids -> 0..MaxU] /\ idOf \in [U -> Ids \cup {0}]
          /\ pc \in [U -> {"none", "wait", "emit", "done"}]
          /\ due \in SUBSET U /\ closed \in SUBSET U /\ fired \in [U -> 0..1] /\ cancelledEarly \in SUBSET U
          /\ nextU \in 1..(MaxU + 1)
          /\ lastAdd \in [id : Ids \cup {0}, res : {"none", "ok", "exists"}, pendingBefore : BOOLEAN]
Allocated == \A u \in U : (pc[u] = "none") <=> (u >= nextU)
Named == \A u \in U : pc[u] # "none" => idOf[u] \in Ids
Registered == \A i \in Ids : tm[i] # 0 =>
                 /\ tm[i] < nextU /\ idOf[tm[i]] = i /\ pc[tm[i]] = "wait" /\ tm[i] \notin closed /\ fired[tm[i]] = 0
WaitingIsRegistered == \A u \in U : (pc[u] = "wait" /\ u \notin closed) => tm[idOf[u]] = u
Finished == \A u \in U : pc[u] \in {"emit", "done"} => (fired[u] = 1 \/ u \in closed)
FiredOnlyAfterSelect == \A u \in U : fired[u] = 1 => (pc[u] \in {"emit", "done"} /\ u \notin cancelledEarly)
ClosedSubset == cancelledEarly \subseteq closed /\ \A u \in closed : pc[u] # "none"
Unallocated == \A u \in U : pc[u] = "none" => (fired[u] = 0 /\ u \notin closed /\ u \notin due)

IndInv == /\ TypeOK /\ Allocated /\ Named /\ Registered /\ WaitingIsRegistered /\ Finished
          /\ FiredOnlyAfterSelect /\ ClosedSubset /\ Unallocated
          /\ CancelledNeverFires /\ AtMostOnce /\ PendingSet /\ IdFree
IndInit == IndInv
=============================================================================
