--------------------------- MODULE Trace_Service ---------------------------
(***************************************************************************)
(* Linearizability judge for histories recorded from the real mcrew        *)
(* Service (C16).  One line of cases.ndjson is one history: call / ret /   *)
(* fault / hook / snap events in the order of the recorder's global        *)
(* sequence number.  TLC chooses the linearization point of every          *)
(* operation between its call and its return; a history is accepted when   *)
(* some choice explains every returned result and every snapshot.          *)
(* Each history is a separate initial state, so all are examined in one    *)
(* run; the rejected ones are written out at the end.                      *)
(***************************************************************************)
EXTENDS ServiceProp, Json, SequencesExt

H == ndJsonDeserialize("cases.ndjson")
VARIABLES h, l, pend, results, mem, store, healthy
vars == <<h, l, pend, results, mem, store, healthy>>

Evs == H[h].events
Ev == Evs[l]
Empty == [x \in {} |-> 0]

Init == /\ h \in DOMAIN H /\ l = 1 /\ pend = {} /\ results = Empty
        /\ mem = Empty /\ store = Empty /\ healthy = TRUE

Call == /\ l <= Len(Evs) /\ Ev.ev = "call"
        /\ pend' = pend \cup {[op |-> Ev.op, kind |-> Ev.kind, mid |-> Ev.mid, msg |-> Ev.msg,
                               boom |-> IF "boom" \in DOMAIN Ev THEN Ev.boom ELSE FALSE]}
        /\ l' = l + 1 /\ UNCHANGED <<h, results, mem, store, healthy>>

Lin == \E o \in pend :
         LET r == Apply(o, mem, store, healthy) IN
         /\ pend' = pend \ {o}
         /\ results' = With(results, o.op, [res |-> r.res, walks |-> r.walks, crew |-> mem])
         /\ mem' = r.mem /\ store' = r.store
         /\ UNCHANGED <<h, l, healthy>>

Ret == /\ l <= Len(Evs) /\ Ev.ev = "ret"
       /\ Ev.op \in DOMAIN results
       /\ results[Ev.op].res = Ev.res
       /\ (Ev.kind = "proc" /\ Ev.res = "ok") => results[Ev.op].walks = Ev.walks
       /\ (Ev.kind = "proc") => DOMAIN results[Ev.op].walks = DOMAIN Ev.walks
       /\ (Ev.kind = "read") => results[Ev.op].crew = Ev.crew
       /\ l' = l + 1 /\ UNCHANGED <<h, pend, results, mem, store, healthy>>

Fault == /\ l <= Len(Evs) /\ Ev.ev = "fault"
         /\ healthy' = ~Ev.on /\ l' = l + 1 /\ UNCHANGED <<h, pend, results, mem, store>>

Hook == /\ l <= Len(Evs) /\ Ev.ev = "hook" /\ l' = l + 1 /\ UNCHANGED <<h, pend, results, mem, store, healthy>>

\* a snapshot is taken when no operation is in flight: it must show the model's state, and mem = store
Snap == /\ l <= Len(Evs) /\ Ev.ev = "snap"
        /\ pend = {}
        /\ Ev.storeErr = ""
        /\ Ev.mem = mem /\ Ev.store = store
        /\ MemEqualsStore(Ev.mem, Ev.store)
        /\ l' = l + 1 /\ UNCHANGED <<h, pend, results, mem, store, healthy>>

Next == Call \/ Lin \/ Ret \/ Fault \/ Hook \/ Snap
Spec == Init /\ [][Next]_vars

ASSUME TLCSet(1, {}) /\ TLCSet(2, [i \in DOMAIN H |-> 0])
Mark == /\ (l > TLCGet(2)[h]) => TLCSet(2, [TLCGet(2) EXCEPT ![h] = l])
        /\ (l = Len(Evs) + 1 /\ H[h].outcome = "returned") => TLCSet(1, TLCGet(1) \cup {h})

Post ==
  LET rej == SetToSeq(DOMAIN H \ TLCGet(1))
      NOps(i) == Cardinality({j \in DOMAIN H[i].events : H[i].events[j].ev = "call"})
  IN /\ ndJsonSerialize("judge_bad.ndjson",
          [k \in DOMAIN rej |-> [id |-> H[rej[k]].id, line |-> rej[k], c16 |-> {"not-linearizable-or-mem-differs-from-store"},
                                 stuckAt |-> TLCGet(2)[rej[k]], sigs |-> {}]])
     /\ ndJsonSerialize("judge_stats.ndjson",
          <<[lines |-> Len(H),
             stats |-> [histories |-> Len(H),
                        ops |-> FoldLeft(LAMBDA a, i : a + NOps(i), 0, [i \in DOMAIN H |-> i]),
                        realised |-> Cardinality({i \in DOMAIN H : H[i].realised}),
                        accepted |-> Cardinality(TLCGet(1))]]>>)
=============================================================================
