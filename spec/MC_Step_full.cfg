SPECIFICATION Spec
CONSTANTS MaxBr = 2
 NSlices = 4
INVARIANT NonEmpty
INVARIANT MessageBranchingConsumes
INVARIANT BindingsBranchingNeverConsumes
INVARIANT FailingActionEmitsNothing
INVARIANT PermanentSurvives
INVARIANT Emit
CHECK_DEADLOCK FALSE
