SPECIFICATION Spec
CONSTANTS Cfg <- TheCfg
 EmitOnFailedWrite = TRUE
 MaxN = 4
CONSTRAINT Bound
VIEW View
INVARIANT MemEqualsStore
INVARIANT DoorsWellFormed
INVARIANT EmissionsPersisted
CHECK_DEADLOCK FALSE
