----------------------------- MODULE SpecGraph -----------------------------
(***************************************************************************)
(* C20.  Facts of a specification graph and the expected content of its    *)
(* renderings.                                                             *)
(*   graph : [name -> [action : "none" | "native" | "source", interp,      *)
(*                     nobr : BOOLEAN,                                      *)
(*                     branches : Seq([target : <<"lit", n>> | <<"ref", v, lit>> | <<"empty">>, *)
(*                                     guard : "none" | "native" | "source", ginterp])]] *)
(***************************************************************************)
EXTENDS JSONValue

Nodes(g) == DOMAIN g
Branches(g) == UNION {{<<n, i>> : i \in DOMAIN g[n].branches} : n \in DOMAIN g}
Br(g, b) == g[b[1]].branches[b[2]]
TargetText(t) == CASE t[1] = "lit" -> t[2] [] t[1] = "ref" -> t[3] [] OTHER -> ""

LiteralTargets(g)  == {Br(g, b).target[2] : b \in {x \in Branches(g) : Br(g, x).target[1] = "lit"}}
MissingTargets(g)  == LiteralTargets(g) \ Nodes(g)
VariableTargets(g) == {Br(g, b).target[3] : b \in {x \in Branches(g) : Br(g, x).target[1] = "ref"}}
EmptyTargetNodes(g) == {b[1] : b \in {x \in Branches(g) : Br(g, x).target[1] = "empty"}}
TerminalNodes(g)   == {n \in Nodes(g) : g[n].branches = <<>>}
Targeted(g)        == LiteralTargets(g)
Orphans(g)         == Nodes(g) \ Targeted(g)
NBranches(g)       == Cardinality(Branches(g))
NActions(g)        == Cardinality({n \in Nodes(g) : g[n].action # "none"})
NGuards(g)         == Cardinality({b \in Branches(g) : Br(g, b).guard # "none"})
Interpreters(g)    == {g[n].interp : n \in {m \in Nodes(g) : g[m].action = "source"}}
                      \cup {Br(g, b).ginterp : b \in {x \in Branches(g) : Br(g, x).guard = "source"}}

(***************************************************************************)
(* An analysis report a == [nodeCount, branches, actions, guards, terminal,*)
(* orphans, emptyTargets, missing, targetVars, interpreters] (sequences    *)
(* for the sets) is faithful when every field equals the graph's fact.     *)
(* An empty target is reported under emptyTargets; whether the empty name  *)
(* also counts as a missing target, and whether "no interpreter" is        *)
(* reported as the placeholder "default", is left open.                    *)
(***************************************************************************)
AnalysisFaithful(g, a) ==
  /\ a.nodeCount = Cardinality(Nodes(g))
  /\ a.branches = NBranches(g)
  /\ a.actions = NActions(g)
  /\ a.guards = NGuards(g)
  /\ SeqRange(a.terminal) = TerminalNodes(g)
  /\ SeqRange(a.orphans) = Orphans(g) \/ SeqRange(a.orphans) = Orphans(g) \ {""}
  /\ SeqRange(a.emptyTargets) = EmptyTargetNodes(g)
  /\ SeqRange(a.missing) \ {""} = MissingTargets(g) \ {""}
  /\ SeqRange(a.targetVars) = VariableTargets(g)
  /\ (SeqRange(a.interpreters) = Interpreters(g) \/ (Interpreters(g) = {} /\ SeqRange(a.interpreters) = {"default"}))
  \* reported as sets: no duplicates
  /\ \A f \in {"terminal", "orphans", "emptyTargets", "missing", "targetVars", "interpreters"} :
        Len(a[f]) = Cardinality(SeqRange(a[f]))

(***************************************************************************)
(* A rendering r == [nodes : Seq(name), edges : Seq(<<from, to>>)] is      *)
(* faithful when it has exactly one node statement per spec node, one edge *)
(* per branch (as a bag), and nothing else except that an edge to a        *)
(* missing, variable or empty target needs an endpoint, so one extra node  *)
(* statement per such target is allowed.                                   *)
(***************************************************************************)
HasEmpty(g) == EmptyTargetNodes(g) # {}
EdgeBag(g) == [b \in Branches(g) |-> <<b[1], TargetText(Br(g, b).target)>>]
CountEdges(e, g) == Cardinality({b \in Branches(g) : EdgeBag(g)[b] = e})
RenderFaithful(g, r) ==
  LET extra == MissingTargets(g) \cup VariableTargets(g) \cup (IF HasEmpty(g) THEN {""} ELSE {}) IN
  /\ \A n \in Nodes(g) : Count(n, r.nodes) = 1
  /\ \A i \in DOMAIN r.nodes : r.nodes[i] \in Nodes(g) \cup extra
  /\ \A x \in extra : Count(x, r.nodes) <= 1
  /\ Len(r.edges) = NBranches(g)
  /\ \A i \in DOMAIN r.edges : Count(r.edges[i], r.edges) = CountEdges(r.edges[i], g)
=============================================================================
