----------------------------- MODULE SheensOps -----------------------------
(***************************************************************************)
(* The whole system composed: a single-loop crew (routing and breadth-     *)
(* first re-injection of emissions, CrewProp.tla) whose machines run real  *)
(* specifications under the step and walk semantics of Machine.tla (which  *)
(* uses the reference matcher of Match.tla and the action language of      *)
(* Actions.tla).  This is the growth path of DESIGN.md section 4: whole     *)
(* scenarios are model-checked end to end, and behaviours of this model    *)
(* are replayed on a real sio.Crew built from the same configuration.      *)
(*                                                                         *)
(* A configuration is                                                      *)
(*   [machines : [mid -> [spec, st]], inputs : Seq(message)]               *)
(* Processing is deterministic for deterministic specs and commuting       *)
(* crews (every step relation is a singleton); where it is not, this       *)
(* module picks one outcome (CHOOSE) and the judge skips the comparison.   *)
(***************************************************************************)
EXTENDS Machine, SequencesExt

Services == {"timers", "captain"}
Addressed(msg, ids) ==
  IF ~IsObj(msg) \/ "to" \notin DOMAIN msg[2] THEN ids \ Services
  ELSE LET to == msg[2]["to"] IN
       IF IsStr(to) THEN (IF to[2] = "*" THEN ids \ Services ELSE {to[2]} \cap ids)
       ELSE IF IsArr(to) THEN {to[2][i][2] : i \in {j \in DOMAIN to[2] : IsStr(to[2][j])}} \cap ids
       ELSE ids \ Services

\* The step relation admits several shapes of the state after a failed action (with and without actionError, lastBindings
\* with or without the failed attempt's own error bindings: Step and Walk build it differently).  They are one outcome for
\* the composed model, which compares states up to those two bindings.
CoarseBs(bs) == [k \in DOMAIN bs \ {"actionError"} |-> IF k = "lastBindings" THEN Str("<bs>") ELSE bs[k]]
CoarseSt(st) == IF st = NONE THEN NONE ELSE St(StNode(st), CoarseBs(StBs(st)))
CoarseOut(o) == [o EXCEPT !.to = CoarseSt(o.to)]

\* one machine walks one message (the engine's loop, DESIGN.md appendix D), with a step limit
RECURSIVE WalkFrom(_, _, _, _, _, _)
WalkFrom(spec, st, pend, n, em, det) ==
  IF n = 0 THEN [st |-> st, emitted |-> em, det |-> det]
  ELSE LET outs == WalkStrideOutcomes(spec, st, IF pend = <<>> THEN NoMsg ELSE Head(pend), {})
           o    == CHOOSE x \in outs : TRUE
           d2   == det /\ Cardinality({CoarseOut(x) : x \in outs}) = 1
           p2   == IF o.consumed # NONE THEN Tail(pend) ELSE pend
       IN IF o.to # NONE THEN WalkFrom(spec, o.to, p2, n - 1, em \o o.emitted, d2)
          ELSE IF p2 = <<>> \/ o.consumed = NONE THEN [st |-> st, emitted |-> em \o o.emitted, det |-> d2]
          ELSE WalkFrom(spec, st, p2, n - 1, em \o o.emitted, d2)
Walk1(m, msg) == WalkFrom(m.spec, m.st, <<msg>>, 100, <<>>, TRUE)

\* breadth-first processing of one external message by the crew
RECURSIVE PresentAll(_, _, _, _, _)
PresentAll(ms, todo, msg, batches, det) ==       \* todo: the addressed machines not yet presented
  IF todo = {} THEN [ms |-> ms, batches |-> batches, det |-> det]
  ELSE LET k == CHOOSE x \in todo : TRUE
           w == Walk1(ms[k], msg)
       IN PresentAll([ms EXCEPT ![k].st = w.st], todo \ {k}, msg,
                     IF w.emitted = <<>> THEN batches ELSE Append(batches, w.emitted), det /\ w.det)
RECURSIVE Bfs(_, _, _, _, _)
Bfs(ms, queue, reported, det, fuel) ==
  IF queue = <<>> \/ fuel = 0 THEN [ms |-> ms, emitted |-> reported, det |-> det /\ queue = <<>>]
  ELSE LET r == PresentAll(ms, Addressed(Head(queue), DOMAIN ms), Head(queue), <<>>, det)
       IN Bfs(r.ms, Tail(queue) \o FoldLeft(LAMBDA a, b : a \o b, <<>>, r.batches), reported \o r.batches, r.det, fuel - 1)
ProcessMsg(ms, msg) == Bfs(ms, <<msg>>, <<>>, TRUE, 30)
=============================================================================
