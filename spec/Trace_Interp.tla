---------------------------- MODULE Trace_Interp ----------------------------
(***************************************************************************)
(* Judge for recordings of the real ECMAScript interpreter.                *)
(* kind "iso" (C10): polluting executions, then a probe, then probes       *)
(*   concurrent with polluters, all on one interpreter with shared         *)
(*   compiled programs; the caller's bindings and props before / after.    *)
(* kind "time" (C11): executions of looping scripts under deadlines and    *)
(*   cancellation, with monotonic times (ms) and goroutine counts.         *)
(***************************************************************************)
EXTENDS Integers, Sequences, FiniteSets, TLC, Json

Trace == ndJsonDeserialize("cases.ndjson")
VARIABLES l, bad, stats
vars == <<l, bad, stats>>

\* ---- C10
\* what a probe must see whatever ran before or beside it: the pristine observation of a solo run
ProbeOK(c, p) == p.err = "" /\ p.hasBs /\ p.bs = c.solo.bs
C10Labels(c) ==
  IF c.kind # "iso" THEN {} ELSE
  (IF c.bsAfter # c.bsBefore THEN {"caller-bindings-modified"} ELSE {})
  \* (the extended interpreter's _.match from several executions at once: each got what it gets alone)
  \cup (IF "matchSame" \in DOMAIN c /\ ~c.matchSame THEN {"concurrent-builtin-differs-from-alone"} ELSE {})
  \cup (IF c.propsAfter # c.propsBefore THEN {"caller-props-modified"} ELSE {})
  \cup (IF ~(c.solo.err = "" /\ c.solo.hasBs) THEN {"probe-failed"} ELSE {})
  \cup (IF ~ProbeOK(c, c.after) THEN {"pollution-visible-to-later-execution"} ELSE {})
  \cup (IF \E i \in DOMAIN c.concurrent : ~ProbeOK(c, c.concurrent[i]) THEN {"pollution-visible-to-concurrent-execution"} ELSE {})
  \cup (IF \E i \in DOMAIN c.polluters : c.polluters[i].err = "panic" THEN {"crash"} ELSE {})

\* ---- C11
\* the tolerance grows with the scheduling jitter the driver measured while the case ran (how late a goroutine
\* sleeping 1 ms woke up): an overloaded machine is not a late interrupt
Slack(c) == (IF c.par <= 4 THEN 500 ELSE 2500) + 10 * c.jitter
Max(a, b) == IF a > b THEN a ELSE b
\* an execution whose context ended stops promptly; a script that does not end by itself reports a timeout
ExecLabels(c, e) ==
  (IF e.hung THEN {"never-returned"} ELSE {})
  \cup (IF ~e.hung /\ ~e.terminates /\ e.err # "timeout" THEN {"no-timeout-error"} ELSE {})
  \cup (IF ~e.hung /\ e.terminates /\ ~e.fails /\ e.err \notin {"", "timeout"} THEN {"wrong-error"} ELSE {})
  \cup (IF ~e.hung /\ e.terminates /\ e.fails /\ e.err = "" THEN {"failure-not-reported"} ELSE {})
  \cup (IF ~e.hung /\ e.err = "timeout" /\ e.ret > Max(e.start, e.ctxDone) + Slack(c) THEN {"stopped-too-late"} ELSE {})
  \cup (IF ~e.hung /\ e.viaWalk /\ e.err = "timeout" /\ ~(e.walkNode = "error" /\ e.walkErrText) THEN {"timeout-not-routed-as-action-error"} ELSE {})
C11Labels(c) ==
  IF c.kind # "time" THEN {} ELSE
  UNION {ExecLabels(c, c.execs[i]) : i \in DOMAIN c.execs}
  \cup (IF c.gAfter > c.gBefore /\ \A i \in DOMAIN c.execs : ~c.execs[i].hung THEN {"goroutines-leaked"} ELSE {})

Init == l = 1 /\ bad = <<>> /\ stats = [iso |-> 0, probes |-> 0, execs |-> 0, timeouts |-> 0]
Next ==
  /\ l <= Len(Trace)
  /\ l' = l + 1
  /\ LET c == Trace[l] a == C10Labels(c) b == C11Labels(c) IN
     /\ bad' = (IF a \cup b = {} THEN bad ELSE Append(bad, [id |-> c.id, line |-> l, c10 |-> a, c11 |-> b, sigs |-> {}]))
     /\ stats' = [iso |-> stats.iso + (IF c.kind = "iso" THEN 1 ELSE 0),
                  probes |-> stats.probes + (IF c.kind = "iso" THEN 1 + Len(c.concurrent) ELSE 0),
                  execs |-> stats.execs + (IF c.kind = "time" THEN Len(c.execs) ELSE 0),
                  timeouts |-> stats.timeouts + (IF c.kind = "time" THEN Cardinality({i \in DOMAIN c.execs : c.execs[i].err = "timeout"}) ELSE 0)]
Spec == Init /\ [][Next]_vars
Done == (l = Len(Trace) + 1) =>
          /\ ndJsonSerialize("judge_bad.ndjson", bad)
          /\ ndJsonSerialize("judge_stats.ndjson", <<[stats |-> stats, lines |-> Len(Trace)]>>)
Accepted == TLCGet("stats").diameter - 1 = Len(Trace)
=============================================================================
