SPECIFICATION Spec
CONSTANTS Shape = "locked"
 Ops <- OpsOf
 Faults = 1
 Scenario = 3
INVARIANT MemEqualsStore
INVARIANT Collect
POSTCONDITION Post
CHECK_DEADLOCK FALSE
