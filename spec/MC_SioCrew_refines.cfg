SPECIFICATION Spec
CONSTANTS Ids = {"a", "b"}
 States = {"s1", "s2"}
 Specs = {"A", "B"}
 MaxOps = 4
 Shape = "repaired"
INVARIANT ShadowEqualsLive
PROPERTY RefinesInd
VIEW View
CHECK_DEADLOCK FALSE
