------------------------------- MODULE Expect -------------------------------
(***************************************************************************)
(* C19.  Meaning of an expectation session (tools/expect, cmd/mexpect).    *)
(*                                                                         *)
(* A session is a sequence of steps; a step has the lines that arrive      *)
(* during it (JSON messages or non-JSON noise) and a set of outputs        *)
(*   [pat : pattern, guard : "none" | <<"ops", ops>>, inv : BOOLEAN].      *)
(* SpecPass: for every step there is a window (a prefix of the lines       *)
(* available to the step; what is left over is available to the next step) *)
(* in which every expected (non-inverted) output is matched by some line   *)
(* and accepted by its guard, and no line matches a forbidden (inverted)   *)
(* output.  Only soundness of the tool's verdict is the property:          *)
(*     toolPassed => SpecPass                                              *)
(***************************************************************************)
EXTENDS Match, Actions

Noise == <<"noise">>

(***************************************************************************)
(* Timing.  A line <<"slow", v>> is the message v arriving AFTER the        *)
(* session's default timeout (and before a step's own, long timeout).  A    *)
(* step with long = TRUE has its own long timeout; every other step waits  *)
(* for the default one.  "An expected message that never arrives before    *)
(* the timeout" is then: a slow line in a step that is not long is not     *)
(* part of what the step sees.  (The generator puts slow lines only at the *)
(* end of the last step, so nothing arrives behind them and nothing is     *)
(* left over for a later step.)                                            *)
(***************************************************************************)
IsLong(st) == "long" \in DOMAIN st /\ st.long
IsSlow(l)  == l[1] = "slow"
Seen(st) ==
  LET fast == SelectSeq(st.lines, LAMBDA x : ~IsSlow(x))
      slow == SelectSeq(st.lines, IsSlow)
  IN IF IsLong(st) THEN fast \o [i \in DOMAIN slow |-> slow[i][2]] ELSE fast

Cands(o, line) == IF line = Noise THEN {} ELSE M(o.pat, line, EmptyFn)

\* the line matches the output's pattern and the guard (if any) accepts the match
Satisfies(o, line) ==
  LET cs == Cands(o, line) IN
  /\ cs # {}
  /\ (o.guard = NoOps \/ \E c \in cs : Run(o.guard[2], c).oc = "ok")

\* (sessions in which no pattern matches any line in more than one way)
SingleCandidate(outs, lines) ==
  \A i \in DOMAIN outs, j \in DOMAIN lines : Cardinality(Cands(outs[i], lines[j])) <= 1

WindowOK(outs, w) ==
  /\ \A i \in DOMAIN outs : ~outs[i].inv => \E j \in DOMAIN w : Satisfies(outs[i], w[j])
  /\ \A i \in DOMAIN outs : outs[i].inv => \A j \in DOMAIN w : ~Satisfies(outs[i], w[j])

\* The messages of a step are a prefix of what is available to it - and not the empty one: a step that passes has looked
\* at least at the first message after its inputs (a step that only forbids would otherwise forbid nothing).
RECURSIVE PassFrom(_, _, _)
PassFrom(steps, k, carry) ==
  IF k > Len(steps) THEN TRUE
  ELSE LET avail == carry \o Seen(steps[k]) IN
       \E n \in 1..Len(avail) :
          /\ \E j \in 1..n : avail[j] # Noise
          /\ WindowOK(steps[k].outs, SubSeq(avail, 1, n))
          /\ PassFrom(steps, k + 1, SubSeq(avail, n + 1, Len(avail)))

SpecPass(steps) == PassFrom(steps, 1, <<>>)

(***************************************************************************)
(* Implementation-shaped model of Session.Run's reader loop: a countdown   *)
(* of outstanding expectations, per-output "already matched" marks, fail   *)
(* fast on a forbidden match, stop as soon as nothing is outstanding.      *)
(* Marks = TRUE is the documented intent; Marks = FALSE models a loop that *)
(* forgets its marks (a repeated message is then counted again).           *)
(***************************************************************************)
RECURSIVE ToolLines(_, _, _, _, _)
\* returns <<verdict, leftover>> with verdict \in {"pass", "fail"}
ToolLines(outs, lines, need, marked, Marks) ==
  IF lines = <<>> THEN <<"fail", <<>> >>                   \* nothing more arrives: timeout
  ELSE LET line == Head(lines)
           hits == {i \in DOMAIN outs : i \notin marked /\ Satisfies(outs[i], line)}
           bad  == \E i \in hits : outs[i].inv
           n2   == need - Cardinality({i \in hits : ~outs[i].inv})
       IN IF line = Noise THEN ToolLines(outs, Tail(lines), need, marked, Marks)
          ELSE IF bad THEN <<"fail", Tail(lines)>>
          ELSE IF n2 <= 0 THEN <<"pass", Tail(lines)>>
          ELSE ToolLines(outs, Tail(lines), n2, IF Marks THEN marked \cup hits ELSE marked, Marks)

RECURSIVE ToolFrom(_, _, _, _)
ToolFrom(steps, k, carry, Marks) ==
  IF k > Len(steps) THEN "pass"
  ELSE LET outs == steps[k].outs
           need == Cardinality({i \in DOMAIN outs : ~outs[i].inv})
           r    == ToolLines(outs, carry \o Seen(steps[k]), need, {}, Marks)
       IN IF r[1] = "fail" THEN "fail" ELSE ToolFrom(steps, k + 1, r[2], Marks)
ToolPass(steps, Marks) == ToolFrom(steps, 1, <<>>, Marks) = "pass"
=============================================================================
