SPECIFICATION Spec
CONSTANTS Cfg <- TheCfg
 Wedge = FALSE
 MakeOnPending = "replace"
 FireDropsBs = FALSE
 MaxN = 4
CONSTRAINT Bound
VIEW View
INVARIANT DoorsWellFormed
INVARIANT StoreCovers
INVARIANT GenUnique
INVARIANT StoreIsLive
INVARIANT RelockScheduledUndisturbed
PROPERTY RestartInvisible
CHECK_DEADLOCK FALSE
