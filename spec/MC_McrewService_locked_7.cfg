SPECIFICATION Spec
CONSTANTS Shape = "locked"
 Ops <- OpsOf
 Faults = 1
 Scenario = 7
INVARIANT MemEqualsStore
INVARIANT Collect
POSTCONDITION Post
CHECK_DEADLOCK FALSE
