SPECIFICATION FairSpec
CONSTANTS Terminates = FALSE
 Watcher = FALSE
 CancelAfter = TRUE
 MaxT = 3
INVARIANT TimeoutReported
PROPERTY Prompt
PROPERTY NoLeak
CHECK_DEADLOCK FALSE
