------------------------------ MODULE CrewProp ------------------------------
(***************************************************************************)
(* Property-level specification of a crew (C14, C15).                      *)
(*                                                                         *)
(* A crew snapshot is a function  mid -> [present, node, bs, spec].  The   *)
(* captain is a service machine that every crew has and that is not part   *)
(* of a snapshot; the timers machine is a service machine too.             *)
(***************************************************************************)
EXTENDS JSONValue, SequencesExt

Services == {"timers", "captain"}

(***************************************************************************)
(* C14, single-loop crew (sio).  Who is addressed by a message:            *)
(*  - no routing target (or a message that is not an object): every        *)
(*    ordinary machine;                                                    *)
(*  - "to" a string: "*" is every ordinary machine, otherwise that machine *)
(*    (a service machine only when named);                                 *)
(*  - "to" a list: the machines named by its string members, each once;    *)
(*    unknown, repeated and non-string members contribute nothing extra;   *)
(*  - any other "to" is not a routing target the crew understands and the  *)
(*    message is treated as unrouted.                                      *)
(***************************************************************************)
Addressed(msg, snap) ==
  LET all      == DOMAIN snap \cup {"captain"}
      ordinary == DOMAIN snap \ Services
  IN IF ~IsObj(msg) \/ "to" \notin DOMAIN msg[2] THEN ordinary
     ELSE LET to == msg[2]["to"] IN
          IF IsStr(to) THEN (IF to[2] = "*" THEN ordinary ELSE {to[2]} \cap all)
          ELSE IF IsArr(to) THEN {to[2][i][2] : i \in {j \in DOMAIN to[2] : IsStr(to[2][j])}} \cap all
          ELSE ordinary

\* a recorder machine emits, for a message with id i, the list bs.table[i], each
\* object tagged with the name of the machine's spec
\* (a recorder identifies a message that is not an object by its JSON text)
MsgId(msg) == IF IsObj(msg) /\ "id" \in DOMAIN msg[2] /\ IsStr(msg[2]["id"]) THEN msg[2]["id"][2]
              ELSE IF IsStr(msg) THEN "\"" \o msg[2] \o "\"" ELSE "?"
Tagged(o, spec) == IF IsObj(o) THEN Obj(Put(o[2], "spec", Str(spec))) ELSE o
Batch(rec, msg) ==
  LET tbl == rec.bs["table"] IN
  IF IsObj(tbl) /\ MsgId(msg) \in DOMAIN tbl[2] /\ IsArr(tbl[2][MsgId(msg)])
  THEN [i \in DOMAIN tbl[2][MsgId(msg)][2] |-> Tagged(tbl[2][MsgId(msg)][2][i], rec.spec)]
  ELSE <<>>
IsRecorder(snap, k) == k \in DOMAIN snap /\ "table" \in DOMAIN snap[k].bs

Flatten(batches) == FoldLeft(LAMBDA acc, b : acc \o b, <<>>, batches)

Dequeues(ev)  == SelectSeq(ev, LAMBDA e : e[1] = "dequeue")
\* the presentations that followed the i-th dequeue (up to the next dequeue)
RECURSIVE RoundOf(_, _, _)
RoundOf(ev, i, k) ==   \* i: position in ev; k: dequeues still to skip
  IF i > Len(ev) THEN <<>>
  ELSE IF ev[i][1] = "dequeue" THEN (IF k = 0 THEN <<>> ELSE RoundOf(ev, i + 1, k - 1))
  ELSE (IF k = 0 THEN <<ev[i]>> \o RoundOf(ev, i + 1, 0) ELSE RoundOf(ev, i + 1, k))
PosOfDequeue(ev, n) == (SelectSeq([i \in DOMAIN ev |-> i], LAMBDA i : ev[i][1] = "dequeue"))[n]
Round(ev, n) == RoundOf(ev, PosOfDequeue(ev, n) + 1, 0)

\* every dequeued message is presented exactly once to each addressed machine and to no other
DeliveredExactlyOnce(snap, ev) ==
  /\ \A i \in DOMAIN ev : ev[i][1] = "present" => i > 1        \* nothing is presented before a dequeue
  /\ \A n \in DOMAIN Dequeues(ev) :
       LET d == Dequeues(ev)[n][3]  r == Round(ev, n) IN
       /\ \A j \in DOMAIN r : r[j][3] = d
       /\ {r[j][2] : j \in DOMAIN r} = Addressed(d, snap)
       /\ \A j1, j2 \in DOMAIN r : j1 # j2 => r[j1][2] # r[j2][2]

\* emitted messages: each processed exactly once and reported exactly once, machine batches intact
EmissionsAccounted(snap, msg, ev, emitted) ==
  LET D == [i \in DOMAIN Dequeues(ev) |-> Dequeues(ev)[i][3]]
      expected == UNION { { <<n, k>> : k \in {x \in Addressed(D[n], snap) : IsRecorder(snap, x) /\ Batch(snap[x], D[n]) # <<>>} }
                          : n \in DOMAIN D }
  IN /\ D # <<>> /\ D[1] = msg
     /\ SameBag(Tail(D), Flatten(emitted))
     /\ Len(emitted) = Cardinality(expected)
     /\ \A i \in DOMAIN emitted :
           Count(emitted[i], emitted) = Cardinality({e \in expected : Batch(snap[e[2]], D[e[1]]) = emitted[i]})

\* breadth first: levels never decrease along the processing order, and the messages of one
\* batch are processed in the order the machine emitted them
HasLvl(m) == IF IsObj(m) THEN "lvl" \in DOMAIN m[2] ELSE FALSE
BreadthFirst(ev, emitted) ==
  LET D == [i \in DOMAIN Dequeues(ev) |-> Dequeues(ev)[i][3]]
      L == SelectSeq(D, HasLvl)
  IN
  /\ \A i \in 1..(Len(L) - 1) : L[i][2]["lvl"][2] <= L[i + 1][2]["lvl"][2]
  /\ \A b \in DOMAIN emitted : \A x, y \in DOMAIN emitted[b] :
        (x < y /\ Count(emitted[b][x], D) = 1 /\ Count(emitted[b][y], D) = 1)
          => (CHOOSE i \in DOMAIN D : D[i] = emitted[b][x]) < (CHOOSE i \in DOMAIN D : D[i] = emitted[b][y])

\* the machines' own view: each recorder's log grew by exactly the ids presented to it, in order
LogsAgree(before, after, ev) ==
  \A k \in DOMAIN before : (IsRecorder(before, k) /\ k \in DOMAIN after /\ IsRecorder(after, k)) =>
     LET seen == SelectSeq(ev, LAMBDA e : e[1] = "present" /\ e[2] = k) IN
     after[k].bs["log"] = Arr(before[k].bs["log"][2] \o [i \in DOMAIN seen |-> Str(MsgId(seen[i][3]))])

(***************************************************************************)
(* C15.  A store that applies each reported change in order equals the     *)
(* live crew: every machine's node, bindings and spec source, deleted      *)
(* machines absent.  The timers machine is created by every crew by        *)
(* itself: a store without a record for it denotes its default state (no   *)
(* pending timers).  A record without state denotes the default state      *)
(* start/{} (the driver's projection already applies that default).        *)
(***************************************************************************)
NoTimers(r) == r.node = "start" /\ DOMAIN r.bs = {"timers"} /\ r.bs["timers"] = EmptyObj
ShadowEqualsLive(shadow, live) ==
  /\ \A mid \in (DOMAIN live \cup DOMAIN shadow) \ {"timers"} :
        mid \in DOMAIN live /\ mid \in DOMAIN shadow /\ shadow[mid] = live[mid]
  /\ "timers" \in DOMAIN live =>
        IF "timers" \in DOMAIN shadow
        THEN shadow["timers"].node = live["timers"].node /\ shadow["timers"].bs = live["timers"].bs
        ELSE NoTimers(live["timers"])

\* a crew booted from the store behaves like the original from then on
RestartEquivalent(r) ==
  /\ r.bootErr = ""
  /\ Len(r.outsOrig) = Len(r.outsNew)
  /\ \A j \in DOMAIN r.outsOrig : SameBag(r.outsOrig[j], r.outsNew[j])
  /\ \A mid \in (DOMAIN r.liveOrigEnd \cup DOMAIN r.liveNewEnd) \ {"timers"} :
        mid \in DOMAIN r.liveOrigEnd /\ mid \in DOMAIN r.liveNewEnd /\ r.liveOrigEnd[mid] = r.liveNewEnd[mid]
  /\ ("timers" \in DOMAIN r.liveOrigEnd) <=> ("timers" \in DOMAIN r.liveNewEnd)
  \* ... and the store the restarted crew's host keeps (the store it booted from plus what the new crew reports) is
  \* again the live crew
  /\ ShadowEqualsLive(r.shadowNewEnd, r.liveNewEnd)
=============================================================================
