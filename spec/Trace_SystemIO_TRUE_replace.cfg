SPECIFICATION Spec
CONSTANTS Cfg <- TheCfg
 Wedge = TRUE
 MakeOnPending = "replace"
 FireDropsBs = FALSE
INVARIANT Mark
POSTCONDITION Post
CHECK_DEADLOCK FALSE
