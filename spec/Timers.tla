------------------------------- MODULE Timers -------------------------------
(***************************************************************************)
(* Implementation-shaped model of the mcrew timers (cmd/mcrew/timers.go):  *)
(* the id -> entry map under its lock, requester operations Add / Rem, and *)
(* one goroutine per timer with program counter                            *)
(*    wait -> (select) -> emit -> cleanup -> done                          *)
(* Go's select chooses arbitrarily among ready cases, so a timer that is   *)
(* both due and cancelled may take either branch.                          *)
(*                                                                         *)
(* Shape = "late":  the entry is deleted (by id) after emit returns - the   *)
(*                  code as first read.                                    *)
(* Shape = "early": on the due branch the goroutine, under the lock, gives *)
(*                  up if its entry is no longer the registered one and    *)
(*                  otherwise deletes it, then emits - the repaired code.  *)
(*                                                                         *)
(* u ranges over timer instances (one per accepted Add), i over ids.       *)
(***************************************************************************)
EXTENDS Naturals, FiniteSets, Sequences, TLC
CONSTANTS Ids, MaxU, Shape
U == 1..MaxU
VARIABLES tm,      \* the map: id -> instance (0: no entry)
          idOf,    \* instance -> id
          pc,      \* instance -> "none" | "wait" | "emit" | "cleanup" | "done"
          due,     \* instances whose due time has passed
          closed,  \* instances whose control channel was closed by Rem
          fired,   \* instance -> number of emissions
          cancelledEarly,  \* instances for which Rem succeeded before they fired
          nextU, lastAdd, sched
vars == <<tm, idOf, pc, due, closed, fired, cancelledEarly, nextU, lastAdd, sched>>

Init == /\ tm = [i \in Ids |-> 0] /\ idOf = [u \in U |-> 0] /\ pc = [u \in U |-> "none"]
        /\ due = {} /\ closed = {} /\ fired = [u \in U |-> 0] /\ cancelledEarly = {} /\ nextU = 1
        /\ lastAdd = [id |-> 0, res |-> "none", pendingBefore |-> FALSE] /\ sched = <<>>

Pending(u) == pc[u] # "none" /\ fired[u] = 0 /\ u \notin closed
PendingIds == {idOf[u] : u \in {v \in U : Pending(v)}}
Log(x) == sched' = Append(sched, x)

Add(i) == /\ nextU <= MaxU
          /\ IF tm[i] # 0
             THEN /\ lastAdd' = [id |-> i, res |-> "exists", pendingBefore |-> i \in PendingIds]
                  /\ UNCHANGED <<tm, idOf, pc, nextU>>
             ELSE /\ tm' = [tm EXCEPT ![i] = nextU] /\ idOf' = [idOf EXCEPT ![nextU] = i]
                  /\ pc' = [pc EXCEPT ![nextU] = "wait"] /\ nextU' = nextU + 1
                  /\ lastAdd' = [id |-> i, res |-> "ok", pendingBefore |-> i \in PendingIds]
          /\ Log(<<"add", i>>) /\ UNCHANGED <<due, closed, fired, cancelledEarly>>

Rem(i) == /\ tm[i] # 0
          /\ LET u == tm[i] IN
             /\ tm' = [tm EXCEPT ![i] = 0] /\ closed' = closed \cup {u}
             /\ cancelledEarly' = IF fired[u] = 0 THEN cancelledEarly \cup {u} ELSE cancelledEarly
          /\ Log(<<"rem", i>>) /\ UNCHANGED <<idOf, pc, due, fired, nextU, lastAdd>>

Tick(u) == /\ pc[u] = "wait" /\ u \notin due /\ due' = due \cup {u}
           /\ Log(<<"tick", u>>) /\ UNCHANGED <<tm, idOf, pc, closed, fired, cancelledEarly, nextU, lastAdd>>

SelectDue(u) ==
  /\ pc[u] = "wait" /\ u \in due
  /\ IF Shape = "early"
     THEN IF tm[idOf[u]] = u
          THEN /\ tm' = [tm EXCEPT ![idOf[u]] = 0] /\ fired' = [fired EXCEPT ![u] = @ + 1]
               /\ pc' = [pc EXCEPT ![u] = "emit"]
          ELSE /\ pc' = [pc EXCEPT ![u] = "done"] /\ UNCHANGED <<tm, fired>>
     ELSE /\ fired' = [fired EXCEPT ![u] = @ + 1] /\ pc' = [pc EXCEPT ![u] = "emit"] /\ UNCHANGED tm
  /\ Log(<<"due", u>>) /\ UNCHANGED <<idOf, due, closed, cancelledEarly, nextU, lastAdd>>
SelectCancelled(u) == /\ pc[u] = "wait" /\ u \in closed /\ pc' = [pc EXCEPT ![u] = "done"]
                      /\ Log(<<"cancel-seen", u>>)
                      /\ UNCHANGED <<tm, idOf, due, closed, fired, cancelledEarly, nextU, lastAdd>>
EmitDone(u) == /\ pc[u] = "emit" /\ pc' = [pc EXCEPT ![u] = IF Shape = "early" THEN "done" ELSE "cleanup"]
               /\ Log(<<"emitted", u>>)
               /\ UNCHANGED <<tm, idOf, due, closed, fired, cancelledEarly, nextU, lastAdd>>
Cleanup(u) == /\ pc[u] = "cleanup" /\ tm' = [tm EXCEPT ![idOf[u]] = 0] /\ pc' = [pc EXCEPT ![u] = "done"]
              /\ Log(<<"cleaned", u>>)
              /\ UNCHANGED <<idOf, due, closed, fired, cancelledEarly, nextU, lastAdd>>

Next == (\E i \in Ids : Add(i) \/ Rem(i))
        \/ (\E u \in U : Tick(u) \/ SelectDue(u) \/ SelectCancelled(u) \/ EmitDone(u) \/ Cleanup(u))
Spec == Init /\ [][Next]_vars
FairSpec == Spec /\ \A u \in U : WF_vars(Tick(u) \/ SelectDue(u) \/ SelectCancelled(u) \/ EmitDone(u) \/ Cleanup(u))

\* C17 on the model
CancelledNeverFires == \A u \in cancelledEarly : fired[u] = 0
AtMostOnce == \A u \in U : fired[u] <= 1
PendingSet == {i \in Ids : tm[i] # 0} = PendingIds
IdFree == lastAdd.res = "exists" => lastAdd.pendingBefore
\* a timer that is neither cancelled nor still waiting has fired
Quiet == \A u \in U : pc[u] \in {"none", "done"}
EventuallyFires == <>[](\A u \in U : (pc[u] # "none" /\ u \notin closed) => (fired[u] = 1 \/ pc[u] = "wait"))
View == <<tm, idOf, pc, due, closed, fired, cancelledEarly, nextU, lastAdd>>
=============================================================================
