---------------------------- MODULE Trace_Specter ----------------------------
(***************************************************************************)
(* Linearizability judge for concurrent walks over one specification       *)
(* object with concurrent swaps of an UpdatableSpec (C12).  One line is    *)
(* one history: the table `solo` of the results each (version, input)      *)
(* gives when walked alone, and the events                                 *)
(*   swap-call(v) swap-ret(v)  walk-call(g, input)  walk-ret(g, input, res) *)
(* Each walk must return exactly the result it would obtain alone under    *)
(* ONE version that was current at some instant between its call and its   *)
(* return; TLC chooses the instants.                                       *)
(***************************************************************************)
EXTENDS Integers, Sequences, FiniteSets, TLC, Json, SequencesExt
H == ndJsonDeserialize("cases.ndjson")
VARIABLES h, l, cur, pendSwap, pendWalk, ver
vars == <<h, l, cur, pendSwap, pendWalk, ver>>
Evs == H[h].events
Ev == Evs[l]
Empty == [x \in {} |-> 0]
With(f, k, v) == [x \in DOMAIN f \cup {k} |-> IF x = k THEN v ELSE f[x]]
Without(f, k) == [x \in DOMAIN f \ {k} |-> f[x]]

Init == h \in DOMAIN H /\ l = 1 /\ cur = H[h].initial /\ pendSwap = {} /\ pendWalk = {} /\ ver = Empty
SwapCall == l <= Len(Evs) /\ Ev.ev = "swap-call" /\ pendSwap' = pendSwap \cup {Ev.v} /\ l' = l + 1 /\ UNCHANGED <<h, cur, pendWalk, ver>>
SwapLin == \E v \in pendSwap : cur' = v /\ pendSwap' = pendSwap \ {v} /\ UNCHANGED <<h, l, pendWalk, ver>>
SwapRet == l <= Len(Evs) /\ Ev.ev = "swap-ret" /\ Ev.v \notin pendSwap /\ l' = l + 1 /\ UNCHANGED <<h, cur, pendSwap, pendWalk, ver>>
WalkCall == l <= Len(Evs) /\ Ev.ev = "walk-call" /\ pendWalk' = pendWalk \cup {Ev.g} /\ l' = l + 1 /\ UNCHANGED <<h, cur, pendSwap, ver>>
WalkLin == \E g \in pendWalk : ver' = With(ver, g, cur) /\ pendWalk' = pendWalk \ {g} /\ UNCHANGED <<h, l, cur, pendSwap>>
WalkRet == /\ l <= Len(Evs) /\ Ev.ev = "walk-ret" /\ Ev.g \in DOMAIN ver
           /\ Ev.outcome = "returned"
           /\ Ev.res = H[h].solo[ver[Ev.g]][Ev.input]
           /\ ver' = Without(ver, Ev.g)
           /\ l' = l + 1 /\ UNCHANGED <<h, cur, pendSwap, pendWalk>>
Next == SwapCall \/ SwapLin \/ SwapRet \/ WalkCall \/ WalkLin \/ WalkRet
Spec == Init /\ [][Next]_vars

ASSUME TLCSet(1, {}) /\ TLCSet(2, [i \in DOMAIN H |-> 0])
Mark == /\ (l > TLCGet(2)[h]) => TLCSet(2, [TLCGet(2) EXCEPT ![h] = l])
        /\ (l = Len(Evs) + 1 /\ H[h].specUnchanged /\ H[h].nilSeen = 0) => TLCSet(1, TLCGet(1) \cup {h})
Post ==
  LET rej == SetToSeq(DOMAIN H \ TLCGet(1))
      N(i, e) == Cardinality({j \in DOMAIN H[i].events : H[i].events[j].ev = e})
  IN /\ ndJsonSerialize("judge_bad.ndjson",
          [k \in DOMAIN rej |-> [id |-> H[rej[k]].id, line |-> rej[k],
                                 c12 |-> IF ~H[rej[k]].specUnchanged THEN {"shared-spec-modified"} ELSE {"walk-result-not-explained-by-one-version"},
                                 stuckAt |-> TLCGet(2)[rej[k]], sigs |-> {}]])
     /\ ndJsonSerialize("judge_stats.ndjson",
          <<[lines |-> Len(H),
             stats |-> [histories |-> Len(H),
                        walks |-> FoldLeft(LAMBDA a, i : a + N(i, "walk-ret"), 0, [i \in DOMAIN H |-> i]),
                        swaps |-> FoldLeft(LAMBDA a, i : a + N(i, "swap-ret"), 0, [i \in DOMAIN H |-> i]),
                        accepted |-> Cardinality(TLCGet(1))]]>>)
=============================================================================
