SPECIFICATION Spec
CONSTANTS Cfg <- TheCfg
 Wedge = FALSE
 MakeOnPending = "keep"
 FireDropsBs = FALSE
INVARIANT Mark
POSTCONDITION Post
CHECK_DEADLOCK FALSE
