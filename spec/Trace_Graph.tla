----------------------------- MODULE Trace_Graph -----------------------------
(***************************************************************************)
(* Judge for recorded results of tools.Analyze / tools.Dot / tools.Mermaid *)
(* on real compiled specifications (C20).                                  *)
(***************************************************************************)
EXTENDS SpecGraph, Json

Trace == ndJsonDeserialize("cases.ndjson")
VARIABLES l, bad, stats
vars == <<l, bad, stats>>

RenderLabels(c, which, outcome, r) ==
  (IF outcome = "panicked" THEN {which \o "-crash"} ELSE {})
  \cup (IF outcome = "error" THEN {which \o "-error"} ELSE {})
  \* structural fidelity is judged for names that are plain identifiers
  \cup (IF outcome = "returned" /\ r.unparsed # <<>> THEN {which \o "-malformed-statement"} ELSE {})
  \cup (IF outcome = "returned" /\ r.unparsed = <<>> /\ ~RenderFaithful(c.g, r)
        THEN {which \o "-not-faithful"} ELSE {})

Labels(c) ==
  (IF c.analysisOutcome # "returned" THEN {"analysis-crash"} ELSE {})
  \cup (IF \E i \in DOMAIN c.rawOutcomes : c.rawOutcomes[i] = "panicked" THEN {"tool-crashes-on-the-uncompiled-spec"} ELSE {})
  \cup (IF c.analysisOutcome = "returned" /\ ~AnalysisFaithful(c.g, c.analysis) THEN {"analysis-not-faithful"} ELSE {})
  \cup RenderLabels(c, "dot", c.dotOutcome, c.dot)
  \cup RenderLabels(c, "mermaid", c.mermaidOutcome, c.mermaid)

Sigs(c) == {}

Init == l = 1 /\ bad = <<>> /\ stats = [graphs |-> 0, withBranches |-> 0, withMissing |-> 0, withNative |-> 0, structural |-> 0]
Next ==
  /\ l <= Len(Trace)
  /\ l' = l + 1
  /\ LET c == Trace[l] lab == Labels(c) IN
     /\ bad' = (IF lab = {} THEN bad ELSE Append(bad, [id |-> c.id, line |-> l, c20 |-> lab, sigs |-> Sigs(c)]))
     /\ stats' = [graphs |-> stats.graphs + 1,
                  withBranches |-> stats.withBranches + (IF NBranches(c.g) > 0 THEN 1 ELSE 0),
                  withMissing |-> stats.withMissing + (IF MissingTargets(c.g) # {} THEN 1 ELSE 0),
                  withNative |-> stats.withNative + (IF \E n \in Nodes(c.g) : c.g[n].action = "native" THEN 1 ELSE 0),
                  structural |-> stats.structural + 1]
Spec == Init /\ [][Next]_vars
Done == (l = Len(Trace) + 1) =>
          /\ ndJsonSerialize("judge_bad.ndjson", bad)
          /\ ndJsonSerialize("judge_stats.ndjson", <<[stats |-> stats, lines |-> Len(Trace)]>>)
Accepted == TLCGet("stats").diameter - 1 = Len(Trace)
=============================================================================
