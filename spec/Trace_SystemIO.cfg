SPECIFICATION Spec
CONSTANTS Cfg <- TheCfg
 Wedge = FALSE
 MakeOnPending = "replace"
 FireDropsBs = FALSE
INVARIANT Mark
POSTCONDITION Post
CHECK_DEADLOCK FALSE
