SPECIFICATION Spec
CONSTANTS Cfg <- TheCfg
 Wedge = TRUE
 MakeOnPending = "cancel"
 FireDropsBs = FALSE
INVARIANT Mark
POSTCONDITION Post
CHECK_DEADLOCK FALSE
