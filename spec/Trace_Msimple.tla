---------------------------- MODULE Trace_Msimple ----------------------------
(***************************************************************************)
(* Conformance of the real cmd/msimple binary with MsimpleOps.tla: one     *)
(* line is one run of the binary (spec file, start state, input lines);    *)
(* observed are, per input line, the messages it printed (in order) and    *)
(* the machine's state afterwards.  Compared where the model is            *)
(* deterministic.  c.recycle says whether the run fed emissions back.      *)
(***************************************************************************)
EXTENDS MsimpleOps, Json
Trace == ndJsonDeserialize("cases.ndjson")
VARIABLES l, bad, stats
vars == <<l, bad, stats>>

RECURSIVE Replay(_, _, _)
Replay(c, i, cur) ==
  IF i > Len(c.steps) THEN {}
  ELSE LET r == IF c.recycle THEN MsSubmit(cur, c.steps[i].msg) ELSE MsSubmitFlat(cur, c.steps[i].msg)
           obs == c.steps[i]
           same == CoarseSt(NormSt(r.st)) = CoarseSt(NormSt(obs.state)) /\ r.out = obs.out
       IN (IF r.det /\ ~same THEN {i} ELSE {}) \cup (IF r.det THEN Replay(c, i + 1, [cur EXCEPT !.st = r.st]) ELSE {})
Labels(c) == IF c.outcome # "returned" THEN {"host-failed"} ELSE
             IF Replay(c, 1, c.machine) # {} THEN {"msimple-differs-from-composed-model"} ELSE {}
Init == l = 1 /\ bad = <<>> /\ stats = [runs |-> 0, steps |-> 0, printed |-> 0]
Next ==
  /\ l <= Len(Trace)
  /\ l' = l + 1
  /\ LET c == Trace[l] a == Labels(c) IN
     /\ bad' = (IF a = {} THEN bad ELSE Append(bad, [id |-> c.id, line |-> l, msimple |-> a, at |-> Replay(c, 1, c.machine), sigs |-> {}]))
     /\ stats' = [runs |-> stats.runs + 1, steps |-> stats.steps + Len(c.steps),
                  printed |-> stats.printed + FoldLeft(LAMBDA a2, s : a2 + Len(s.out), 0, c.steps)]
Spec == Init /\ [][Next]_vars
Done == (l = Len(Trace) + 1) =>
          /\ ndJsonSerialize("judge_bad.ndjson", bad)
          /\ ndJsonSerialize("judge_stats.ndjson", <<[stats |-> stats, lines |-> Len(Trace)]>>)
Accepted == TLCGet("stats").diameter - 1 = Len(Trace)
=============================================================================
