----------------------------- MODULE MC_SioCrew -----------------------------
EXTENDS SioCrew, Json, SequencesExt
\* export complete histories (ending in a report) for replay on the real crew
Collect == (clean /\ nops = MaxOps) => TLCSet(1, TLCGet(1) \cup {hist})
Post == LET q == SetToSeq(TLCGet(1)) IN ndJsonSerialize("histories.ndjson", [i \in DOMAIN q |-> [hist |-> q[i]]])
ASSUME TLCSet(1, {})
\* the typed copy with the inductive invariant (SioCrewInd.tla, discharged by Apalache) admits every step of this model:
\* what is proved there for histories of any length holds here
Ind == INSTANCE SioCrewInd
RefinesInd == Ind!Spec
=============================================================================
