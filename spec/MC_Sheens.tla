----------------------------- MODULE MC_Sheens -----------------------------
(***************************************************************************)
(* A concrete crew, read from the configuration the Go driver writes       *)
(* (config.ndjson: one source of truth for model and implementation): two  *)
(* turnstiles t1, t2 (README), a relay r that re-emits what it is given,   *)
(* and a latch l that remembers the last value it was set to.              *)
(***************************************************************************)
EXTENDS Sheens, Json
Config == ndJsonDeserialize("config.ndjson")[1]
TheMachines == Config.machines
TheInputs == SeqRange(Config.inputs)
CONSTANT MaxN
Bound == n <= MaxN

Node(k) == StNode(ms[k].st)
\* ---- properties of the scenario
TurnstilesWellFormed == \A k \in {"t1", "t2"} : Node(k) \in {"locked", "unlocked"}
ServicesAtRest == Node("r") = "start" /\ Node("l") = "start"
IsTo(m, k) == IsObj(m) /\ "to" \in DOMAIN m[2] /\ m[2]["to"] = Str(k)
Has(m, f, v) == IsObj(m) /\ f \in DOMAIN m[2] /\ m[2][f] = v
\* a coin unlocks, a push locks (the addressed turnstile)
CoinUnlocks == \A k \in {"t1", "t2"} : (last # NoMsg /\ IsTo(last, k) /\ Has(last, "input", Str("coin"))) => Node(k) = "unlocked"
PushLocks   == \A k \in {"t1", "t2"} : (last # NoMsg /\ IsTo(last, k) /\ Has(last, "input", Str("push"))) => Node(k) = "locked"
\* what the relay is given is emitted exactly once and reaches its addressee in the same processing round
RelayDelivers == (last # NoMsg /\ IsTo(last, "r") /\ "relay" \in DOMAIN last[2]) => (out # <<>> /\ out[1] = <<last[2]["relay"]>>)
\* a coin relayed to a turnstile unlocks it within the same processing round
RelayedCoinUnlocks == (last # NoMsg /\ IsTo(last, "r") /\ "relay" \in DOMAIN last[2] /\ IsTo(last[2]["relay"], "t1")) => Node("t1") = "unlocked"
\* the latch holds the last value it was set to
LatchHolds == (last # NoMsg /\ IsTo(last, "l") /\ "set" \in DOMAIN last[2]) => ("val" \in DOMAIN StBs(ms["l"].st) /\ StBs(ms["l"].st)["val"] = last[2]["set"])
=============================================================================
