---------------------------- MODULE McrewService ----------------------------
(***************************************************************************)
(* Implementation-shaped model of the mcrew Service (cmd/mcrew/service.go):*)
(* the crew lock, the in-memory crew, the bolt store, and the critical     *)
(* sections of AddMachine / RemMachine / Process, with a store that can    *)
(* start and stop failing.  A machine's state is abstracted to the         *)
(* sequence of message ids it has processed.                               *)
(*                                                                         *)
(* Shape = "split": AddMachine and RemMachine update memory under the lock *)
(*          and write after releasing it (the code as first read).         *)
(* Shape = "locked": they write under the lock and update memory only when *)
(*          the write succeeded, as Process does (the repaired code).      *)
(*                                                                         *)
(* Each client executes one operation.  TLC explores every interleaving    *)
(* and every position of the fault toggle, checks MemEqualsStore in        *)
(* quiescent states, and the behaviours are exported as gate schedules     *)
(* that the driver replays on the real service.                            *)
(***************************************************************************)
EXTENDS Integers, Sequences, FiniteSets, TLC

CONSTANTS Shape,        \* "split" | "locked"
          Ops,          \* sequence of operations, one per client: <<"add", mid>> | <<"rem", mid>> | <<"proc", mid, msg>>
          Faults        \* max number of fault toggles

Clients == DOMAIN Ops
Mids == {Ops[c][2] : c \in Clients}
Absent == <<"absent">>

VARIABLES mem, store, healthy, pc, lock, res, toggles, sched
vars == <<mem, store, healthy, pc, lock, res, toggles, sched>>

Init == /\ mem = [m \in Mids |-> Absent] /\ store = [m \in Mids |-> Absent]
        /\ healthy = TRUE /\ pc = [c \in Clients |-> "start"] /\ lock = 0
        /\ res = [c \in Clients |-> "none"] /\ toggles = 0 /\ sched = <<>>

Kind(c) == Ops[c][1]
Mid(c)  == Ops[c][2]
Step(c, point) == sched' = Append(sched, <<c, point>>)

\* ---- store fault toggle (an environment step)
Toggle == /\ toggles < Faults /\ toggles' = toggles + 1 /\ healthy' = ~healthy
          /\ sched' = Append(sched, <<0, IF healthy THEN "fail" ELSE "heal">>)
          /\ UNCHANGED <<mem, store, pc, lock, res>>

\* ---- AddMachine, shape "split"
AddMem(c) == /\ Kind(c) = "add" /\ Shape = "split" /\ pc[c] = "start" /\ lock = 0
             /\ IF mem[Mid(c)] # Absent
                THEN /\ res' = [res EXCEPT ![c] = "exists"] /\ pc' = [pc EXCEPT ![c] = "done"]
                     /\ UNCHANGED mem /\ Step(c, "ret")
                ELSE /\ mem' = [mem EXCEPT ![Mid(c)] = <<>>] /\ pc' = [pc EXCEPT ![c] = "write"]
                     /\ UNCHANGED res /\ Step(c, "add-before-write")
             /\ UNCHANGED <<store, healthy, lock, toggles>>
AddWrite(c) == /\ Kind(c) = "add" /\ pc[c] = "write"
               /\ IF healthy THEN store' = [store EXCEPT ![Mid(c)] = <<>>] /\ res' = [res EXCEPT ![c] = "ok"]
                             ELSE UNCHANGED store /\ res' = [res EXCEPT ![c] = "error"]
               /\ pc' = [pc EXCEPT ![c] = "done"] /\ Step(c, "ret")
               /\ UNCHANGED <<mem, healthy, lock, toggles>>
\* ---- AddMachine, shape "locked"
AddLocked(c) == /\ Kind(c) = "add" /\ Shape = "locked" /\ pc[c] = "start" /\ lock = 0
                /\ IF mem[Mid(c)] # Absent THEN res' = [res EXCEPT ![c] = "exists"] /\ UNCHANGED <<mem, store>>
                   ELSE IF healthy THEN /\ mem' = [mem EXCEPT ![Mid(c)] = <<>>] /\ store' = [store EXCEPT ![Mid(c)] = <<>>]
                                        /\ res' = [res EXCEPT ![c] = "ok"]
                   ELSE res' = [res EXCEPT ![c] = "error"] /\ UNCHANGED <<mem, store>>
                /\ pc' = [pc EXCEPT ![c] = "done"] /\ Step(c, "ret")
                /\ UNCHANGED <<healthy, lock, toggles>>

\* ---- RemMachine
RemMem(c) == /\ Kind(c) = "rem" /\ Shape = "split" /\ pc[c] = "start" /\ lock = 0
             /\ mem' = [mem EXCEPT ![Mid(c)] = Absent] /\ pc' = [pc EXCEPT ![c] = "write"]
             /\ Step(c, "rem-before-write") /\ UNCHANGED <<store, healthy, lock, res, toggles>>
RemWrite(c) == /\ Kind(c) = "rem" /\ pc[c] = "write"
               /\ IF healthy THEN store' = [store EXCEPT ![Mid(c)] = Absent] /\ res' = [res EXCEPT ![c] = "ok"]
                             ELSE UNCHANGED store /\ res' = [res EXCEPT ![c] = "error"]
               /\ pc' = [pc EXCEPT ![c] = "done"] /\ Step(c, "ret")
               /\ UNCHANGED <<mem, healthy, lock, toggles>>
RemLocked(c) == /\ Kind(c) = "rem" /\ Shape = "locked" /\ pc[c] = "start" /\ lock = 0
                /\ IF healthy THEN /\ mem' = [mem EXCEPT ![Mid(c)] = Absent] /\ store' = [store EXCEPT ![Mid(c)] = Absent]
                                   /\ res' = [res EXCEPT ![c] = "ok"]
                   ELSE res' = [res EXCEPT ![c] = "error"] /\ UNCHANGED <<mem, store>>
                /\ pc' = [pc EXCEPT ![c] = "done"] /\ Step(c, "ret")
                /\ UNCHANGED <<healthy, lock, toggles>>

\* ---- Process: one critical section (route, walk, write, conditional memory update)
\* split in two model steps at the write so that the fault toggle can fall in between
ProcWalk(c) == /\ Kind(c) = "proc" /\ pc[c] = "start" /\ lock = 0
               /\ lock' = c /\ pc' = [pc EXCEPT ![c] = "write"] /\ Step(c, "process-before-write")
               /\ UNCHANGED <<mem, store, healthy, res, toggles>>
ProcWrite(c) == /\ Kind(c) = "proc" /\ pc[c] = "write" /\ lock = c
                /\ LET ts == IF Mid(c) = "*" THEN {m \in Mids \ {"*"} : mem[m] # Absent} ELSE {Mid(c)} \cap {m \in Mids : mem[m] # Absent} IN
                   IF ts = {} THEN UNCHANGED <<mem, store>> /\ res' = [res EXCEPT ![c] = "nomachine"]
                   ELSE IF healthy
                        THEN /\ mem' = [m \in Mids |-> IF m \in ts THEN Append(mem[m], Ops[c][3]) ELSE mem[m]]
                             /\ store' = [m \in Mids |-> IF m \in ts THEN Append(mem[m], Ops[c][3]) ELSE store[m]]
                             /\ res' = [res EXCEPT ![c] = "ok"]
                        ELSE UNCHANGED <<mem, store>> /\ res' = [res EXCEPT ![c] = "error"]
                /\ lock' = 0 /\ pc' = [pc EXCEPT ![c] = "done"] /\ Step(c, "ret")
                /\ UNCHANGED <<healthy, toggles>>

\* ---- read-crew: a copy of memory under the read lock (excluded by a Process in its critical section)
ReadCopy(c) == /\ Kind(c) = "read" /\ pc[c] = "start" /\ lock = 0
               /\ res' = [res EXCEPT ![c] = "ok"] /\ pc' = [pc EXCEPT ![c] = "done"] /\ Step(c, "ret")
               /\ UNCHANGED <<mem, store, healthy, lock, toggles>>

Next == Toggle \/ \E c \in Clients : ReadCopy(c) \/
          AddMem(c) \/ AddWrite(c) \/ AddLocked(c) \/ RemMem(c) \/ RemWrite(c) \/ RemLocked(c) \/ ProcWalk(c) \/ ProcWrite(c)
Spec == Init /\ [][Next]_vars

Quiescent == \A c \in Clients : pc[c] \in {"start", "done"}
AllDone   == \A c \in Clients : pc[c] = "done"
\* C16 at the level of the model
MemEqualsStore == Quiescent => mem = store
=============================================================================
