------------------------------ MODULE ExecTime ------------------------------
(***************************************************************************)
(* C11.  One execution of a script under a context, with explicit time.    *)
(* Processes: the VM running the script, the per-execution watcher         *)
(* goroutine, the context (deadline / cancel).                              *)
(*   Start -> (VM runs; polls the interrupt flag between instructions)     *)
(*   CtxDone (deadline passes or cancel is called)                          *)
(*   WatcherInterrupt (the watcher sees the derived context end and sets   *)
(*                     the interrupt flag)                                  *)
(*   VmStops (the VM sees the flag) / VmFinishes (a terminating script)    *)
(*   Return; CancelCalled (cancel() always follows); WatcherExit            *)
(* Watcher = FALSE and CancelAfter = FALSE are negative controls.          *)
(***************************************************************************)
EXTENDS Naturals, TLC
CONSTANTS Terminates,   \* does the script end by itself
          Watcher,      \* is there a watcher goroutine
          CancelAfter,  \* is cancel() called after the program returns
          MaxT
VARIABLES now, ctxDone, flag, vm, watcher, returned, err
vars == <<now, ctxDone, flag, vm, watcher, returned, err>>

Init == /\ now = 0 /\ ctxDone \in BOOLEAN /\ flag = FALSE /\ vm = "running"
        /\ watcher = (IF Watcher THEN "waiting" ELSE "none") /\ returned = FALSE /\ err = "none"

Tick == now < MaxT /\ now' = now + 1 /\ UNCHANGED <<ctxDone, flag, vm, watcher, returned, err>>
CtxDone == ~ctxDone /\ ctxDone' = TRUE /\ UNCHANGED <<now, flag, vm, watcher, returned, err>>
\* the watcher waits for the DERIVED context: it ends when the given context ends or when cancel() is called
WatcherInterrupt == /\ watcher = "waiting" /\ (ctxDone \/ (CancelAfter /\ returned))
                    /\ flag' = TRUE /\ watcher' = "exited" /\ UNCHANGED <<now, ctxDone, vm, returned, err>>
VmStops == /\ vm = "running" /\ flag /\ vm' = "stopped" /\ err' = "timeout" /\ UNCHANGED <<now, ctxDone, flag, watcher, returned>>
VmFinishes == /\ vm = "running" /\ Terminates /\ vm' = "finished" /\ UNCHANGED <<now, ctxDone, flag, watcher, returned, err>>
\* Return: the derived context is cancelled (cancel()), which also releases the watcher
\* Return: the program has returned; cancel() follows (CancelAfter), which releases the watcher
Return == /\ vm \in {"stopped", "finished"} /\ ~returned /\ returned' = TRUE
          /\ UNCHANGED <<now, ctxDone, flag, vm, watcher, err>>
Next == Tick \/ CtxDone \/ WatcherInterrupt \/ VmStops \/ VmFinishes \/ Return
Spec == Init /\ [][Next]_vars
FairSpec == Spec /\ WF_vars(WatcherInterrupt) /\ WF_vars(VmStops) /\ WF_vars(Return) /\ WF_vars(VmFinishes)

\* a script under a context that ends stops: it returns (with the timeout error unless it ended by itself)
Prompt == ctxDone ~> returned
TimeoutReported == (returned /\ vm = "stopped") => err = "timeout"
\* nothing started for the execution outlives the call
NoLeak == returned ~> (watcher \in {"none", "exited"})
=============================================================================
