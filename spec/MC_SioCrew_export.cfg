SPECIFICATION Spec
CONSTANTS Ids = {"a"}
 States = {"s1", "s2"}
 Specs = {"A", "B"}
 MaxOps = 4
 Shape = "repaired"
INVARIANT ShadowEqualsLive
INVARIANT Collect
POSTCONDITION Post
CHECK_DEADLOCK FALSE
