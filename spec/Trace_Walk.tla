----------------------------- MODULE Trace_Walk -----------------------------
(***************************************************************************)
(* Judge for recorded calls of the real core.Spec.Walk (C05; also C04,     *)
(* C06, C07, C08 over walks).  One line is one walk with its snapshots, a  *)
(* second identical call, and the same messages delivered in every split   *)
(* into consecutive batches.  The accounting predicates are evaluated on   *)
(* the OBSERVED walk; every stride must be a member of the step relation.  *)
(***************************************************************************)
EXTENDS Machine, Findings, Json, SequencesExt

Trace == ndJsonDeserialize("cases.ndjson")

VARIABLES l, bad, stats
vars == <<l, bad, stats>>

Perm(c)  == SeqRange(c.perm)
Limit(c) == IF c.nilctl THEN c.deflimit ELSE c.limit
Bps(c)   == SeqRange(c.bps)
S(c)     == c.out.strides
Returned(c) == c.out.outcome = "returned" /\ c.out.walked

\* state before stride i / after the last stride
RECURSIVE CurAfter(_, _)
CurAfter(c, i) == IF i = 0 THEN NormSt(c.st)
                  ELSE IF S(c)[i].to # NONE THEN NormSt(S(c)[i].to) ELSE CurAfter(c, i - 1)
Final(c) == CurAfter(c, Len(S(c)))

\* number of messages consumed by strides 1..i
RECURSIVE NCons(_, _)
NCons(c, i) == IF i = 0 THEN 0 ELSE NCons(c, i - 1) + (IF S(c)[i].consumed # NONE THEN 1 ELSE 0)
ConsumedSeq(c) == LET idx == SelectSeq([i \in 1..Len(S(c)) |-> i], LAMBDA i : S(c)[i].consumed # NONE)
                  IN [j \in 1..Len(idx) |-> S(c)[idx[j]].consumed]
PendingAt(c, i) == LET k == NCons(c, i - 1) IN IF k < Len(c.msgs) THEN c.msgs[k + 1] ELSE NoMsg

NodeOK(c, st) == StNode(st) \in DOMAIN c.spec.nodes => NodeJudgeable(c.spec.nodes[StNode(st)])
AllJudgeable(c) == \A n \in DOMAIN c.spec.nodes : NodeJudgeable(c.spec.nodes[n])

ObsStride(s) == [to |-> NormSt(s.to), consumed |-> s.consumed, emitted |-> s.emitted]
\* a state given with nil (absent) bindings is judged for totality only (C07)
StrideOK(c, i) ==
  c.nilbs \/ S(c)[i].q \/ ~NodeOK(c, NormSt(S(c)[i].from)) \/
  ObsStride(S(c)[i]) \in WalkStrideOutcomes(c.spec, NormSt(S(c)[i].from), PendingAt(c, i), Perm(c))

\* whether a stride consumed the message at hand is part of the accounting: a message that a step used (a pattern was
\* matched against it, a guard ran on the result) and that is reported as not consumed is offered again
ConsumptionTruthful(c, i) ==
  c.nilbs \/ S(c)[i].q \/ ~NodeOK(c, NormSt(S(c)[i].from)) \/
  \E o \in WalkStrideOutcomes(c.spec, NormSt(S(c)[i].from), PendingAt(c, i), Perm(c)) : o.consumed = ObsStride(S(c)[i]).consumed

C04Labels(c) ==
  IF Returned(c) /\ \E i \in DOMAIN S(c) : ~StrideOK(c, i) THEN {"stride-not-the-documented-step"} ELSE {}

Total(c) == NCons(c, Len(S(c)))
Rest(c)  == IF Total(c) >= Len(c.msgs) THEN <<>> ELSE SubSeq(c.msgs, Total(c) + 1, Len(c.msgs))

C05Labels(c) ==
  IF ~Returned(c) THEN {} ELSE
  (IF Total(c) > Len(c.msgs) \/ ConsumedSeq(c) # SubSeq(c.msgs, 1, Total(c)) THEN {"consumption-out-of-order"} ELSE {})
  \cup (IF \E i \in DOMAIN S(c) : ~ConsumptionTruthful(c, i) THEN {"consumption-misreported"} ELSE {})
  \cup (IF Len(S(c)) > Limit(c) /\ Limit(c) >= 0 THEN {"more-steps-than-limit"} ELSE {})
  \cup (IF c.out.stopped \in {"Limited", "BreakpointReached"} /\ c.out.remaining # Rest(c) THEN {"wrong-remainder"} ELSE {})
  \cup (IF c.out.stopped = "Limited" /\ Len(S(c)) # Limit(c) /\ Limit(c) >= 0 THEN {"limited-before-limit"} ELSE {})
  \cup (IF \E i \in DOMAIN S(c) : NormSt(S(c)[i].from) # CurAfter(c, i - 1) THEN {"discontinuous"} ELSE {})
  \cup (IF c.out.stopped = "BreakpointReached" /\ StNode(Final(c)) \notin Bps(c) THEN {"false-breakpoint"} ELSE {})
  \cup (IF \E i \in DOMAIN S(c) : StNode(CurAfter(c, i - 1)) \in Bps(c) THEN {"missed-breakpoint"} ELSE {})
  \cup (IF c.out.stopped = "Done" /\ ~c.nilbs /\ ~c.out.finalq /\ NodeOK(c, Final(c)) /\ ~MayRest(c.spec, Final(c), Perm(c)) THEN {"done-but-not-quiescent"} ELSE {})
  \cup (IF c.out.stopped = "Done" /\ Rest(c) # <<>> /\ CanConsume(c.spec, Final(c)) THEN {"discarded-at-consuming-node"} ELSE {})
  \cup (IF c.out.stopped \notin {"Done", "Limited", "BreakpointReached", "InternalError"} THEN {"unknown-stop-reason"} ELSE {})
  \* InternalError is truthful only for a step that failed at the spec's error node (there is no other node to go to):
  \* the last stride starts there and went nowhere, the error is recorded, what was not processed is handed back
  \cup (IF c.out.stopped = "InternalError" /\
           ~(/\ S(c) # <<>>
             /\ StNode(NormSt(S(c)[Len(S(c))].from)) = ErrNode(c.spec)
             /\ S(c)[Len(S(c))].to = NONE
             /\ c.out.werr # ""
             /\ c.out.remaining = Rest(c)
             /\ (c.nilbs \/ S(c)[Len(S(c))].q \/ ~NodeOK(c, NormSt(S(c)[Len(S(c))].from))
                 \/ MayFail(c.spec, NormSt(S(c)[Len(S(c))].from), PendingAt(c, Len(S(c))), Perm(c))))
        THEN {"false-internal-error"} ELSE {})
  \cup
  \* split equivalence: claimed when neither limit nor breakpoint intervened and the walk is deterministic
  (LET det == ~c.nilbs /\ AllJudgeable(c) /\ (\A i \in DOMAIN S(c) : ~S(c)[i].q) /\ DetSpec(c.spec)
       clean(sp) == sp.outcome = "returned" /\ \A j \in DOMAIN sp.stops : sp.stops[j] = "Done"
       ok == {j \in DOMAIN c.splits : clean(c.splits[j])}
   IN IF det /\ \E i, j \in ok : \/ NormSt(c.splits[i].final) # NormSt(c.splits[j].final)
                                  \/ c.splits[i].emitted # c.splits[j].emitted
      THEN {"split-changes-result"} ELSE {})

\* a step that can only fail, taken at the spec's error node: the walk has to stop there and say so (InternalError, the
\* error in Walked.Error) - the failure may not be dropped
DroppedAt(c, i) ==
  /\ ~c.nilbs /\ ~S(c)[i].q /\ NodeOK(c, NormSt(S(c)[i].from))
  /\ StNode(NormSt(S(c)[i].from)) = ErrNode(c.spec)
  /\ MustFail(c.spec, NormSt(S(c)[i].from), PendingAt(c, i), Perm(c))
  /\ ~(i = Len(S(c)) /\ c.out.stopped = "InternalError" /\ c.out.werr # "")
C07Labels(c) ==
  (IF c.out.outcome = "panicked" THEN {"crash"} ELSE {})
  \cup (IF Returned(c) /\ \E i \in DOMAIN S(c) : DroppedAt(c, i) THEN {"failure-at-the-error-node-dropped"} ELSE {})
  \cup (IF c.out.outcome = "hung" THEN {"hang"} ELSE {})
  \cup (IF c.out.outcome = "returned" /\ ~c.out.walked THEN {"no-result"} ELSE {})
  \cup (IF c.repeat.outcome # "returned" THEN {"crash-on-repeat"} ELSE {})
  \cup (IF \E j \in DOMAIN c.splits : c.splits[j].outcome # "returned" THEN {"crash-in-split"} ELSE {})

RECURSIVE Concat(_, _)
Concat(c, i) == IF i = 0 THEN <<>> ELSE Concat(c, i - 1) \o S(c)[i].emitted
C08Labels(c) ==
  IF Returned(c) /\ c.out.doEmitted # Concat(c, Len(S(c))) THEN {"walk-emissions-differ-from-strides"} ELSE {}

SameWalk(a, b) == /\ a.stopped = b.stopped /\ a.remaining = b.remaining /\ a.doEmitted = b.doEmitted
                  /\ Len(a.strides) = Len(b.strides)
                  /\ \A i \in DOMAIN a.strides : /\ NormSt(a.strides[i].to) = NormSt(b.strides[i].to)
                                                 /\ NormSt(a.strides[i].from) = NormSt(b.strides[i].from)
                                                 /\ a.strides[i].consumed = b.strides[i].consumed
                                                 /\ a.strides[i].emitted = b.strides[i].emitted
C06Labels(c) ==
  (IF c.frame.st # c.st THEN {"state-modified"} ELSE {})
  \cup (IF c.frame.msgs # c.msgs THEN {"messages-modified"} ELSE {})
  \cup (IF ~c.frame.specSame THEN {"spec-modified"} ELSE {})
  \cup (IF ~c.frame.ctlSame THEN {"control-modified"} ELSE {})
  \cup (IF ~c.frame.propsSame THEN {"props-modified"} ELSE {})
  \cup (IF c.frame.sharesBs THEN {"result-shares-bindings-map"} ELSE {})
  \cup (IF Returned(c) /\ c.repeat.outcome = "returned" /\ c.repeat.walked /\ AllJudgeable(c) /\ ~c.nilbs /\ (\A i \in DOMAIN S(c) : ~S(c)[i].q)
           /\ (\A i \in DOMAIN S(c) :
                 Cardinality(WalkStrideOutcomes(c.spec, NormSt(S(c)[i].from), PendingAt(c, i), Perm(c))) = 1)
           /\ ~SameWalk(c.out, c.repeat)
        THEN {"not-repeatable"} ELSE {})

Labels(c) == [c04 |-> C04Labels(c), c05 |-> C05Labels(c), c06 |-> C06Labels(c), c07 |-> C07Labels(c), c08 |-> C08Labels(c)]

Zero == [walks |-> 0, strides |-> 0, consumed |-> 0, limited |-> 0, bp |-> 0, done |-> 0, splits |-> 0, emitting |-> 0]
Init == l = 1 /\ bad = <<>> /\ stats = Zero

Next ==
  /\ l <= Len(Trace)
  /\ l' = l + 1
  /\ LET c == Trace[l]
         lab == Labels(c)
         all == lab.c04 \cup lab.c05 \cup lab.c06 \cup lab.c07 \cup lab.c08
     IN /\ bad' = (IF all = {} THEN bad
                   ELSE Append(bad, [id |-> c.id, line |-> l, c04 |-> lab.c04, c05 |-> lab.c05, c06 |-> lab.c06,
                                     c07 |-> lab.c07, c08 |-> lab.c08, sigs |-> WalkSigs(c)]))
        /\ stats' = [walks |-> stats.walks + 1,
                     strides |-> stats.strides + Len(S(c)),
                     consumed |-> stats.consumed + (IF Returned(c) THEN Total(c) ELSE 0),
                     limited |-> stats.limited + (IF c.out.stopped = "Limited" THEN 1 ELSE 0),
                     bp |-> stats.bp + (IF c.out.stopped = "BreakpointReached" THEN 1 ELSE 0),
                     done |-> stats.done + (IF c.out.stopped = "Done" THEN 1 ELSE 0),
                     splits |-> stats.splits + Len(c.splits),
                     emitting |-> stats.emitting + (IF Returned(c) /\ c.out.doEmitted # <<>> THEN 1 ELSE 0)]

Spec == Init /\ [][Next]_vars
Done == (l = Len(Trace) + 1) =>
          /\ ndJsonSerialize("judge_bad.ndjson", bad)
          /\ ndJsonSerialize("judge_stats.ndjson", <<[stats |-> stats, lines |-> Len(Trace)]>>)
Accepted == TLCGet("stats").diameter - 1 = Len(Trace)
=============================================================================
