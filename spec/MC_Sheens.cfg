SPECIFICATION Spec
CONSTANTS Machines <- TheMachines
 Inputs <- TheInputs
 MaxN = 4
CONSTRAINT Bound
INVARIANT TurnstilesWellFormed
INVARIANT ServicesAtRest
INVARIANT CoinUnlocks
INVARIANT PushLocks
INVARIANT RelayDelivers
INVARIANT RelayedCoinUnlocks
INVARIANT LatchHolds
CHECK_DEADLOCK FALSE
