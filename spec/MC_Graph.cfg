SPECIFICATION Spec
CONSTANT Export = TRUE
INVARIANT Consistent
INVARIANT Emit
CHECK_DEADLOCK FALSE
