SPECIFICATION Spec
CONSTANTS MaxBr = 1
 NSlices = 1
INVARIANT NonEmpty
INVARIANT MessageBranchingConsumes
INVARIANT BindingsBranchingNeverConsumes
INVARIANT FailingActionEmitsNothing
INVARIANT PermanentSurvives
INVARIANT Emit
CHECK_DEADLOCK FALSE
