------------------------------- MODULE Sheens -------------------------------
(***************************************************************************)
(* The composed system as a state machine (operators in SheensOps.tla):    *)
(* a crew of machines running real specifications; the host submits        *)
(* inputs in any order.                                                    *)
(***************************************************************************)
EXTENDS SheensOps

(***************************************************************************)
(* The crew as a state machine: the host submits inputs in any order.      *)
(***************************************************************************)
CONSTANTS Machines,    \* [mid -> [spec, st]] : the initial crew
          Inputs       \* set of messages the host may submit
VARIABLES ms, last, out, n
vars == <<ms, last, out, n>>
Init == ms = Machines /\ last = NoMsg /\ out = <<>> /\ n = 0
Submit(m) == LET r == ProcessMsg(ms, m) IN ms' = r.ms /\ out' = r.emitted /\ last' = m /\ n' = n + 1
Next == \E m \in Inputs : Submit(m)
Spec == Init /\ [][Next]_vars
=============================================================================
