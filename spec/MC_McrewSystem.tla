--------------------------- MODULE MC_McrewSystem ---------------------------
(***************************************************************************)
(* A scenario for McrewSystem.tla, read from the configuration the Go      *)
(* driver writes (sysdrv mcrew-config): doors that ask the timers service  *)
(* for a relock message, a fan machine that emits to two doors at once     *)
(* (two goroutines racing for the lock), a door that clients add and       *)
(* remove, a store that clients make fail and recover, direct and invalid  *)
(* timer requests.                                                         *)
(***************************************************************************)
EXTENDS McrewSystem, Json
TheCfg == ndJsonDeserialize("mcrewconfig.ndjson")[1]
CONSTANT MaxN
Bound == Len(hist) <= MaxN
View == <<S, env>>

ms == S.ms
tmap == S.tmap
flight == S.flight
Doors == {k \in DOMAIN ms : ms[k].spec = "door"}
Node(k) == StNode(ms[k].st)
DoorsWellFormed == \A k \in Doors : Node(k) \in {"locked", "unlocked"}
RelockMsg(k) == StBs(ms[k].st)["relock"]
RelockId(k)  == StBs(ms[k].st)["tid"][2]
InFlight(m) == m \in DOMAIN flight
\* an unlocked door has its relock on the way: the request to the timers service is waiting, the timer is
\* pending, or the relock message itself is waiting
RelockOnTheWay ==
  \A k \in Doors : Node(k) = "unlocked" =>
     \/ InFlight(StBs(ms[k].st)["mk"])
     \/ (RelockId(k) \in DOMAIN tmap /\ tmap[RelockId(k)] = RelockMsg(k))
     \/ InFlight(RelockMsg(k))
Quiet == ~env.direct /\ ~env.changed
RelockOnTheWayNoFaults == (Quiet /\ ~env.faulted) => RelockOnTheWay
\* effects follow state: a relock (request, timer) is on the way only for a door that is unlocked or whose
\* cancellation is on the way
TimerImpliesUnlocked ==
  Quiet => \A k \in Doors :
     (InFlight(StBs(ms[k].st)["mk"]) \/ RelockId(k) \in DOMAIN tmap)
        => (Node(k) = "unlocked" \/ InFlight(StBs(ms[k].st)["cn"]))
Export == PrintT("BEH " \o ToString(hist))
=============================================================================
