------------------------------ MODULE MC_Walk ------------------------------
(***************************************************************************)
(* C05 on the model: Walk as a state machine over the step relation of     *)
(* Machine.tla, explored by TLC for all two-node specifications built from *)
(* seven deterministic node shapes (consuming and non-consuming, moving,   *)
(* stuck, terminal, failing, cyclic and non-terminating), all message      *)
(* sequences of length <= 3 over two messages, limits 0..4, with and       *)
(* without a breakpoint.  The accounting properties are invariants of      *)
(* every reachable state; every configuration is exported and walked by    *)
(* the real Spec.Walk (in every split), and Trace_Walk judges.             *)
(***************************************************************************)
EXTENDS Machine, Json, IOUtils, SequencesExt

V1 == Num(2)
A  == Str("a")
M1 == Obj([x \in {"k"} |-> V1])
M2 == Obj([x \in {"j"} |-> A])
Br(p, t) == [pat |-> p, guard |-> NoOps, target |-> <<"lit", t>>]
Node(act, bt, brs) == [act |-> act, native |-> FALSE, partial |-> FALSE, btype |-> bt, branches |-> brs]
Shape(i, self, other) ==
  CASE i = 1 -> Node(NoOps, "message", <<Br(Obj([x \in {"k"} |-> V1]), other)>>)
    [] i = 2 -> Node(NoOps, "message", <<Br(NoPat, other)>>)
    [] i = 3 -> Node(<<"ops", << <<"emit", A>>, <<"set", "k", Num(4)>> >> >>, "bindings", <<Br(NoPat, other)>>)
    [] i = 4 -> Node(<<"ops", << <<"emit", A>>, <<"throw">> >> >>, "bindings", <<Br(NoPat, other)>>)
    [] i = 5 -> Node(NoOps, "none", <<>>)
    [] i = 6 -> Node(NoOps, "bindings", <<Br(Obj([x \in {"k"} |-> V1]), other)>>)
    [] i = 7 -> Node(<<"ops", << <<"emit", A>> >> >>, "bindings", <<Br(NoPat, self)>>)
EmptyNode == Node(NoOps, "none", <<>>)
SpecOf(i, j) == [nodes |-> [n \in {"n0", "n1", "error"} |-> IF n = "n0" THEN Shape(i, "n0", "n1") ELSE IF n = "n1" THEN Shape(j, "n1", "n0") ELSE EmptyNode],
                 aeb |-> FALSE, aen |-> ""]
MsgSeqs == UNION {[1..k -> {M1, M2}] : k \in 0..3}
Bss == {EmptyFn, [x \in {"k"} |-> V1]}

VARIABLES si, sj, msgs, limit, bps, bs0,     \* the configuration
          st, pend, strides, stop, remaining  \* the walk
cfgvars == <<si, sj, msgs, limit, bps, bs0>>
vars == <<si, sj, msgs, limit, bps, bs0, st, pend, strides, stop, remaining>>
TheSpec == SpecOf(si, sj)

Init == /\ si \in 1..7 /\ sj \in 1..7 /\ msgs \in MsgSeqs /\ limit \in 0..4 /\ bps \in {{}, {"n1"}} /\ bs0 \in Bss
        /\ st = St("n0", bs0) /\ pend = msgs /\ strides = <<>> /\ stop = "" /\ remaining = <<>>

AtBreakpoint == StNode(st) \in bps
StopBreakpoint == /\ stop = "" /\ Len(strides) < limit /\ AtBreakpoint
                  /\ stop' = "BreakpointReached" /\ remaining' = pend /\ UNCHANGED <<cfgvars, st, pend, strides>>
StopLimited == /\ stop = "" /\ Len(strides) = limit
               /\ stop' = "Limited" /\ remaining' = pend /\ UNCHANGED <<cfgvars, st, pend, strides>>
WalkStep ==
  /\ stop = "" /\ Len(strides) < limit /\ ~AtBreakpoint
  /\ \E o \in WalkStrideOutcomes(TheSpec, st, IF pend = <<>> THEN NoMsg ELSE Head(pend), {}) :
       LET p2 == IF o.consumed # NONE THEN Tail(pend) ELSE pend IN
       /\ strides' = Append(strides, [from |-> st, to |-> o.to, consumed |-> o.consumed, emitted |-> o.emitted])
       /\ pend' = p2
       /\ IF o.to # NONE THEN st' = o.to /\ UNCHANGED <<stop, remaining>>
          ELSE /\ UNCHANGED st
               /\ IF p2 = <<>> \/ o.consumed = NONE THEN stop' = "Done" /\ remaining' = <<>>
                  ELSE UNCHANGED <<stop, remaining>>
  /\ UNCHANGED cfgvars
Next == StopBreakpoint \/ StopLimited \/ WalkStep
Spec == Init /\ [][Next]_vars

\* ---- the accounting properties, as invariants of the model
Consumed == LET idx == SelectSeq([i \in 1..Len(strides) |-> i], LAMBDA i : strides[i].consumed # NONE)
            IN [j \in 1..Len(idx) |-> strides[idx[j]].consumed]
ConsumedInOrder == Consumed = SubSeq(msgs, 1, Len(Consumed)) /\ pend = SubSeq(msgs, Len(Consumed) + 1, Len(msgs))
StepBound == Len(strides) <= limit
TruthfulRemainder == stop \in {"Limited", "BreakpointReached"} => remaining = SubSeq(msgs, Len(Consumed) + 1, Len(msgs))
Continuous == \A i \in DOMAIN strides : strides[i].from = (IF i = 1 THEN St("n0", bs0)
                  ELSE LET prev == SelectSeq(SubSeq(strides, 1, i - 1), LAMBDA s : s.to # NONE)
                       IN IF prev = <<>> THEN St("n0", bs0) ELSE prev[Len(prev)].to)
DoneIsQuiescent == stop = "Done" => /\ Quiescent(TheSpec, st, {})
                                    /\ (pend # <<>> => ~CanConsume(TheSpec, st))

\* export every configuration once (from its initial state)
Emit == (strides = <<>> /\ stop = "") =>
        Serialize(ToJson([nodes |-> TheSpec.nodes, bs |-> bs0, msgs |-> msgs, limit |-> limit, bps |-> SetToSeq(bps)]) \o "\n", "export.ndjson",
                  [format |-> "TXT", charset |-> "UTF-8", openOptions |-> <<"WRITE", "CREATE", "APPEND">>]).exitValue = 0
=============================================================================
