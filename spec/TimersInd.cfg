INIT Init
NEXT Next
INVARIANT IndInv
CHECK_DEADLOCK FALSE
