SPECIFICATION Spec
CONSTANTS Walkers = {1, 2, 3}
 Versions = {1, 2}
 Atomic = FALSE
INVARIANT OneVersion
CHECK_DEADLOCK FALSE
