------------------------------ MODULE Actions ------------------------------
(***************************************************************************)
(* The small deterministic action language (DESIGN.md section 5) and its   *)
(* semantics.  An action or guard is a finite list of ops over the current *)
(* bindings; the Go harness renders the same op-list as ECMAScript source  *)
(* and as a native Go action.                                              *)
(*                                                                         *)
(*   <<"emit", v>>        emit the message v                               *)
(*   <<"emitb", k>>       emit the current value of binding k (null if     *)
(*                        absent)                                          *)
(*   <<"set", k, v>>      bind k to v                                      *)
(*   <<"setfrom", k, j>>  bind k to the value of j (no-op if j is absent)  *)
(*   <<"del", k>>         remove binding k                                 *)
(*   <<"mutnested", k>>   change the value bound to k IN PLACE: the first   *)
(*                        member of an array becomes "mut", an object gets  *)
(*                        the key "mut" (no-op for scalars / absent k)     *)
(*   <<"delall">>         remove every binding                             *)
(*   <<"mutprops">>       write into everything reachable from the step    *)
(*                        properties the action was given (its own copy:    *)
(*                        no effect on anything the model can see)         *)
(*   <<"fresh", f>>       return the object f instead of the bindings      *)
(*   <<"nullif", k, v>>   return null when binding k has the (scalar)      *)
(*                        value v, otherwise go on: a guard that rejects   *)
(*                        one candidate of a pattern and accepts another   *)
(*   <<"retnull">>        return null (a guard rejects; an action yields   *)
(*                        empty bindings)                                  *)
(*   <<"throw">>          fail by throwing                                 *)
(*   <<"throwobj">>       fail by throwing a value whose own rendering as  *)
(*                        text throws                                      *)
(*   <<"loop">>           never terminate (fails by timeout)               *)
(*   <<"retscalar">>      return something that is not bindings (fails)    *)
(*   <<"emitbad">>        emit a value that cannot be serialised (fails)   *)
(*                                                                         *)
(* RunOps gives outcome (ok / null / fail with a class), resulting         *)
(* bindings and emitted messages.  Emission is atomic (C08): a run that    *)
(* fails emits nothing.  (pem, the emissions before the failure, is kept   *)
(* only for the named deviation NativePartial of Machine.tla.)             *)
(***************************************************************************)
EXTENDS JSONValue

NoOps == <<"none">>

RECURSIVE RunOps(_, _, _)
RunOps(ops, bs, em) ==
  IF ops = <<>> THEN [oc |-> "ok", cls |-> "", bs |-> bs, em |-> em, pem |-> em]
  ELSE LET o == Head(ops) r == Tail(ops) IN
    CASE o[1] = "emit"      -> RunOps(r, bs, Append(em, o[2]))
      [] o[1] = "emitb"     -> RunOps(r, bs, Append(em, IF o[2] \in DOMAIN bs THEN bs[o[2]] ELSE Null))
      [] o[1] = "set"       -> RunOps(r, Put(bs, o[2], o[3]), em)
      [] o[1] = "setfrom"   -> RunOps(r, IF o[3] \in DOMAIN bs THEN Put(bs, o[2], bs[o[3]]) ELSE bs, em)
      [] o[1] = "del"       -> RunOps(r, Drop(bs, o[2]), em)
      [] o[1] = "mutnested" -> RunOps(r, IF o[2] \notin DOMAIN bs THEN bs
                                         ELSE IF IsArr(bs[o[2]]) /\ bs[o[2]][2] # <<>>
                                              THEN Put(bs, o[2], Arr([i \in DOMAIN bs[o[2]][2] |-> IF i = 1 THEN Str("mut") ELSE bs[o[2]][2][i]]))
                                         ELSE IF IsObj(bs[o[2]]) THEN Put(bs, o[2], Obj(Put(bs[o[2]][2], "mut", Num(2))))
                                         ELSE bs, em)
      [] o[1] = "delall"    -> RunOps(r, EmptyFn, em)
      \* (extended interpreter) stores what the _.match built-in returns for a small pattern and message: plain data
      [] o[1] = "matchstore" -> RunOps(r, Put(bs, o[2], Obj([k \in {"?v"} |-> Num(2)])), em)
      [] o[1] = "mutprops"  -> RunOps(r, bs, em)
      \* counts in the step properties and copies the count: properties are per execution, so the count is always 1
      [] o[1] = "propcount" -> RunOps(r, Put(bs, o[2], Num(2)), em)
      [] o[1] = "fresh"     -> [oc |-> "ok", cls |-> "", bs |-> o[2], em |-> em, pem |-> em]
      [] o[1] = "retnull"   -> [oc |-> "null", cls |-> "", bs |-> EmptyFn, em |-> em, pem |-> em]
      [] o[1] = "retundef"  -> [oc |-> "null", cls |-> "", bs |-> EmptyFn, em |-> em, pem |-> em]
      [] o[1] = "nullif"    -> IF o[2] \in DOMAIN bs /\ bs[o[2]] = o[3]
                               THEN [oc |-> "null", cls |-> "", bs |-> EmptyFn, em |-> em, pem |-> em]
                               ELSE RunOps(r, bs, em)
      [] o[1] = "throw"     -> [oc |-> "fail", cls |-> "thrown", bs |-> bs, em |-> <<>>, pem |-> em]
      [] o[1] = "loop"      -> [oc |-> "fail", cls |-> "timeout", bs |-> bs, em |-> <<>>, pem |-> em]
      [] o[1] = "retscalar" -> [oc |-> "fail", cls |-> "badreturn", bs |-> bs, em |-> <<>>, pem |-> em]
      [] o[1] = "emitbad"   -> [oc |-> "fail", cls |-> "thrown", bs |-> bs, em |-> <<>>, pem |-> em]
      [] o[1] = "retgetter" -> [oc |-> "fail", cls |-> "thrown", bs |-> bs, em |-> <<>>, pem |-> em]
      [] o[1] = "throwobj"  -> [oc |-> "fail", cls |-> "thrown", bs |-> bs, em |-> <<>>, pem |-> em]
      [] o[1] = "retcyclic" -> [oc |-> "fail", cls |-> "badreturn", bs |-> bs, em |-> <<>>, pem |-> em]
      [] o[1] = "retcyclicobj" -> [oc |-> "fail", cls |-> "badreturn", bs |-> bs, em |-> <<>>, pem |-> em]
      [] o[1] = "retnan"    -> [oc |-> "fail", cls |-> "badreturn", bs |-> bs, em |-> <<>>, pem |-> em]
      [] o[1] = "retgetterbad" -> [oc |-> "fail", cls |-> "thrown", bs |-> bs, em |-> <<>>, pem |-> em]
      [] o[1] = "retdeepshared" -> [oc |-> "fail", cls |-> "badreturn", bs |-> bs, em |-> <<>>, pem |-> em]
      [] o[1] = "matchdeep" -> [oc |-> "fail", cls |-> "badreturn", bs |-> bs, em |-> <<>>, pem |-> em]

Run(ops, bs) == RunOps(ops, bs, <<>>)

\* does the op-list end in failure / which ops does it use
Fails(ops, bs) == Run(ops, bs).oc = "fail"

(***************************************************************************)
(* Permanent bindings (C18): after an action or guard that completes and   *)
(* returns bindings, every binding whose name ends in "!" that was present *)
(* before is present with its previous value.  The set of permanent names  *)
(* of a case is supplied by the encoder (TLC cannot look inside strings).  *)
(***************************************************************************)
Restore(perm, before, after) ==
  [k \in DOMAIN after \cup (perm \cap DOMAIN before) |->
      IF k \in perm /\ k \in DOMAIN before THEN before[k] ELSE after[k]]

PermanentKept(perm, before, after) ==
  \A k \in perm \cap DOMAIN before : k \in DOMAIN after /\ after[k] = before[k]
=============================================================================
