----------------------------- MODULE SioCrewInd -----------------------------
(***************************************************************************)
(* The repaired shape of SioCrew.tla (the change cache of sio/crew.go and  *)
(* the store fold of sio/stdio.go) with type annotations and an INDUCTIVE  *)
(* invariant, for Apalache: ShadowEqualsLive then holds after histories of *)
(* ANY length (SioCrew.tla is explored by TLC up to MaxOps operations).    *)
(* No operation counter, no history variable; everything else is the same  *)
(* text as SioCrew.tla, and ./check C15 lets TLC explore this module with  *)
(* the same bound and demands the same number of distinct states modulo    *)
(* the counter (the copy has not drifted).                                 *)
(*   apalache-mc check --init=IndInit --inv=IndInv --length=1              *)
(*   apalache-mc check --init=Init    --inv=IndInv --length=0              *)
(***************************************************************************)
EXTENDS Naturals, FiniteSets, Sequences

Ids    == {"a", "b"}
States == {"s1", "s2"}
Specs  == {"A", "B"}
NONE == "none"
EMPTYSPEC == "emptyspec"
\* @type: <<Str, Str>>;
NR == <<"none", "none">>
\* @type: <<Str, Str>>;
DR == <<"deleted", "deleted">>

VARIABLES
  \* @type: Str -> { present: Bool, st: Str, spec: Str };
  live,
  \* @type: Str -> { touched: Bool, st: Str, spec: Str, deleted: Bool };
  changed,
  \* @type: Str -> <<Str, Str>>;
  previous,
  \* @type: Str -> { present: Bool, st: Str, spec: Str };
  shadow,
  \* @type: Bool;
  clean
vars == <<live, changed, previous, shadow, clean>>

Absent == [present |-> FALSE, st |-> "s0", spec |-> NONE]
AbsentShadow == [present |-> FALSE, st |-> NONE, spec |-> NONE]
NoChange == [touched |-> FALSE, st |-> NONE, spec |-> NONE, deleted |-> FALSE]
Init == /\ live = [i \in Ids |-> Absent] /\ changed = [i \in Ids |-> NoChange]
        /\ previous = [i \in Ids |-> NR] /\ shadow = [i \in Ids |-> AbsentShadow]
        /\ clean = TRUE

SetMachine(i, src, s) ==
  /\ clean' = FALSE
  /\ LET have == live[i].present
         st0  == IF s = NONE THEN "s0" ELSE s
         l1   == IF have THEN (IF s # NONE THEN [live[i] EXCEPT !.st = s] ELSE live[i])
                 ELSE [present |-> TRUE, st |-> st0, spec |-> NONE]
         l2   == IF src # NONE THEN [l1 EXCEPT !.spec = src] ELSE l1
         c0   == changed[i]
         c1   == IF have THEN c0
                 ELSE [touched |-> TRUE, st |-> st0, deleted |-> FALSE,
                       spec |-> IF c0.deleted /\ src = NONE THEN EMPTYSPEC ELSE c0.spec]
         c2   == IF src # NONE THEN [c1 EXCEPT !.touched = TRUE, !.spec = src] ELSE c1
         c3   == IF s # NONE THEN [c2 EXCEPT !.touched = TRUE, !.st = s] ELSE c2
     IN live' = [live EXCEPT ![i] = l2] /\ changed' = [changed EXCEPT ![i] = c3]
  /\ UNCHANGED <<previous, shadow>>
DeleteMachine(i) ==
  /\ clean' = FALSE
  /\ live' = [live EXCEPT ![i] = Absent]
  /\ changed' = [changed EXCEPT ![i] = [changed[i] EXCEPT !.touched = TRUE, !.deleted = TRUE]]
  /\ UNCHANGED <<previous, shadow>>
RunMachine(i, s) ==
  /\ live[i].present /\ live[i].spec \notin {NONE, EMPTYSPEC} /\ live[i].st # s
  /\ clean' = FALSE
  /\ live' = [live EXCEPT ![i] = [live[i] EXCEPT !.st = s]]
  /\ changed' = [changed EXCEPT ![i] = [changed[i] EXCEPT !.touched = TRUE, !.st = s]]
  /\ UNCHANGED <<previous, shadow>>

\* @type: (Str) => <<Str, Str>>;
Rep(i) == LET c == changed[i] IN IF ~c.touched THEN NR ELSE IF c.deleted THEN DR ELSE <<c.st, c.spec>>
\* @type: (Str) => <<Str, Str>>;
Reported(i) == LET r == Rep(i) IN IF r # NR /\ r # DR /\ previous[i] = r THEN NR ELSE r
\* what the store makes of a report r for a record sh
\* @type: (<<Str, Str>>, { present: Bool, st: Str, spec: Str }) => { present: Bool, st: Str, spec: Str };
Fold(r, sh) ==
  IF r = NR THEN sh
  ELSE IF r = DR THEN AbsentShadow
  ELSE [present |-> TRUE,
        st   |-> IF r[1] # NONE THEN r[1] ELSE sh.st,
        spec |-> IF r[2] # NONE THEN r[2] ELSE sh.spec]
Report ==
  /\ ~clean /\ clean' = TRUE /\ UNCHANGED live
  /\ changed' = [i \in Ids |-> NoChange]
  /\ previous' = [i \in Ids |-> LET r == Rep(i) IN IF r = NR THEN previous[i] ELSE IF r = DR THEN NR ELSE r]
  /\ shadow' = [i \in Ids |-> Fold(Reported(i), shadow[i])]
Next == Report \/ \E i \in Ids :
          \/ \E src \in Specs \cup {NONE}, s \in States \cup {NONE} : SetMachine(i, src, s)
          \/ DeleteMachine(i)
          \/ \E s \in States : RunMachine(i, s)
Spec == Init /\ [][Next]_vars

NormSpec(x) == IF x = EMPTYSPEC THEN NONE ELSE x
\* @type: ({ present: Bool, st: Str, spec: Str }, { present: Bool, st: Str, spec: Str }) => Bool;
Same(sh, lv) ==
   /\ sh.present = lv.present
   /\ lv.present => /\ (IF sh.st = NONE THEN "s0" ELSE sh.st) = lv.st
                    /\ NormSpec(sh.spec) = NormSpec(lv.spec)
ShadowEqualsLive == clean => \A i \in Ids : Same(shadow[i], live[i])

(***************************************************************************)
(* The inductive invariant.                                                *)
(***************************************************************************)
StV == States \cup {"s0", NONE}
SpV == Specs \cup {NONE, EMPTYSPEC}
TypeOK ==
  /\ live \in [Ids -> [present : BOOLEAN, st : States \cup {"s0"}, spec : Specs \cup {NONE}]]
  /\ changed \in [Ids -> [touched : BOOLEAN, st : StV, spec : SpV, deleted : BOOLEAN]]
  /\ previous \in [Ids -> (StV \X SpV)]
  /\ shadow \in [Ids -> [present : BOOLEAN, st : StV, spec : SpV]]
  /\ clean \in BOOLEAN
Shape ==
  \A i \in Ids :
    /\ ~live[i].present => live[i] = Absent
    /\ ~shadow[i].present => shadow[i] = AbsentShadow
    /\ ~changed[i].touched => changed[i] = NoChange
    /\ clean => ~changed[i].touched
\* the pending change, folded into the store's record, gives the live machine
PendingExplainsLive == \A i \in Ids : Same(Fold(Rep(i), shadow[i]), live[i])
\* the last report for a machine is still what the store has: reporting it again would change nothing
PreviousIsInStore ==
  \A i \in Ids : previous[i] # NR => (shadow[i].present /\ Fold(previous[i], shadow[i]) = shadow[i])
IndInv == TypeOK /\ Shape /\ PendingExplainsLive /\ PreviousIsInStore /\ ShadowEqualsLive
IndInit == IndInv
=============================================================================
