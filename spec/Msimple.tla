------------------------------ MODULE Msimple ------------------------------
(***************************************************************************)
(* cmd/msimple as a state machine: the user types inputs in any order.     *)
(***************************************************************************)
EXTENDS MsimpleOps
CONSTANTS TheMachine,  \* [spec, st]
          Inputs
VARIABLES m, last, out, n
vars == <<m, last, out, n>>
Init == m = TheMachine /\ last = NoMsg /\ out = <<>> /\ n = 0
Submit(x) == LET r == MsSubmit(m, x) IN m' = [m EXCEPT !.st = r.st] /\ out' = r.out /\ last' = x /\ n' = n + 1
Next == \E x \in Inputs : Submit(x)
Spec == Init /\ [][Next]_vars
=============================================================================
