------------------------------ MODULE Specter ------------------------------
(***************************************************************************)
(* C12.  An updatable specification: a pointer to the current version,     *)
(* swapped atomically; a walk reads the pointer once and then works on     *)
(* that version, which is immutable shared data.  A version is modelled as *)
(* a pair of halves <<a, b>> so that a torn update is expressible:         *)
(* Atomic = FALSE (negative control) stores the halves in two steps.       *)
(***************************************************************************)
EXTENDS Naturals, FiniteSets, TLC
CONSTANTS Walkers, Versions, Atomic
VARIABLES cur,     \* <<a, b>> : the two halves of the current version
          swap,    \* the version being stored by a torn swap, or 0
          pc, seen \* per walker
vars == <<cur, swap, pc, seen>>
Init == cur = <<1, 1>> /\ swap = 0 /\ pc = [w \in Walkers |-> "idle"] /\ seen = [w \in Walkers |-> <<0, 0>>]

Swap(v) == /\ swap = 0
           /\ IF Atomic THEN cur' = <<v, v>> /\ UNCHANGED swap
              ELSE cur' = <<v, cur[2]>> /\ swap' = v
           /\ UNCHANGED <<pc, seen>>
SwapFinish == swap # 0 /\ cur' = <<swap, swap>> /\ swap' = 0 /\ UNCHANGED <<pc, seen>>
WalkBegin(w) == pc[w] = "idle" /\ seen' = [seen EXCEPT ![w] = cur] /\ pc' = [pc EXCEPT ![w] = "walking"] /\ UNCHANGED <<cur, swap>>
WalkEnd(w) == pc[w] = "walking" /\ pc' = [pc EXCEPT ![w] = "done"] /\ UNCHANGED <<cur, swap, seen>>
Next == (\E v \in Versions : Swap(v)) \/ SwapFinish \/ (\E w \in Walkers : WalkBegin(w) \/ WalkEnd(w))
Spec == Init /\ [][Next]_vars
\* every walk observes one complete version
OneVersion == \A w \in Walkers : pc[w] # "idle" => seen[w][1] = seen[w][2]
=============================================================================
