SPECIFICATION Spec
CONSTANTS Cfg <- TheCfg
 Wedge = FALSE
 MakeOnPending = "cancel"
 FireDropsBs = FALSE
INVARIANT Mark
POSTCONDITION Post
CHECK_DEADLOCK FALSE
