SPECIFICATION Spec
CONSTANTS Shape = "split"
 Ops <- OpsOf
 Faults = 1
 Scenario = 7

INVARIANT Collect
POSTCONDITION Post
CHECK_DEADLOCK FALSE
