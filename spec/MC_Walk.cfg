SPECIFICATION Spec
INVARIANT ConsumedInOrder
INVARIANT StepBound
INVARIANT TruthfulRemainder
INVARIANT Continuous
INVARIANT DoneIsQuiescent
INVARIANT Emit
CHECK_DEADLOCK FALSE
