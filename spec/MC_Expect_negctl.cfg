SPECIFICATION Spec
CONSTANTS MaxOuts = 2
 MaxLines = 3
 TwoSteps = FALSE
 Export = FALSE
INVARIANT ForgetfulSound
INVARIANT Emit
CHECK_DEADLOCK FALSE
