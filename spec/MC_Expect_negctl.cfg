SPECIFICATION Spec
CONSTANTS MaxOuts = 2
 MaxLines = 3
 Candidates = FALSE
 Timeouts = FALSE
 TwoSteps = FALSE
 Export = FALSE
INVARIANT ForgetfulSound
INVARIANT Emit
CHECK_DEADLOCK FALSE
