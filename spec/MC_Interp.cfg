SPECIFICATION Spec
CONSTANTS Execs = {1, 2, 3}
 Script <- ScriptOf
 Pooled = FALSE
INVARIANT ProbesPristine
INVARIANT CallerIntact
CHECK_DEADLOCK FALSE
