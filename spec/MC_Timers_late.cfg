SPECIFICATION Spec
CONSTANTS Ids = {1, 2}
 MaxU = 3
 Shape = "late"
INVARIANT CancelledNeverFires
INVARIANT AtMostOnce
INVARIANT PendingSet
INVARIANT IdFree
VIEW View
CHECK_DEADLOCK FALSE
