SPECIFICATION Spec
CONSTANTS Execs = {1, 2, 3}
 Script <- ScriptOf
 Pooled = TRUE
INVARIANT ProbesPristine
INVARIANT CallerIntact
CHECK_DEADLOCK FALSE
