------------------------------- MODULE Loader -------------------------------
(***************************************************************************)
(* C13.  A specification is an abstract object; Go structures, a JSON      *)
(* document, a YAML document, patterns written inline or as JSON text      *)
(* under the JSON pattern syntax, a specification compiled once, twice,    *)
(* by force, or compiled, serialised and reloaded, and the same documents  *)
(* loaded through a host's loader are all RENDERINGS of it.  Every         *)
(* rendering denotes the same abstract specification, hence the same       *)
(* behaviour on every message sequence (the behaviour itself is the        *)
(* subject of Machine.tla / C04, C05).  CompileOutcome: compiling yields   *)
(* an error exactly when the specification names an unknown interpreter,   *)
(* pattern syntax or branching type - at compile time, not at run time.    *)
(***************************************************************************)
EXTENDS Integers, Sequences, FiniteSets, TLC

Renderings == {"go", "go-compiled-twice", "go-recompiled-forced", "json", "yaml", "go-json-patterns",
               "go-json-patterns-compiled-twice", "go-json-patterns-parsed-then-compiled", "go-json-patterns-compile-retry", "json-json-patterns", "compiled-serialised-reloaded",
               "json-patterns-compiled-serialised-reloaded", "sio-inline", "sio-file-json", "sio-file-yaml", "sio-file-json-after-whitespace", "mcrew-getspec", "msimple-file-yaml", "go-typed-patterns", "go-json-syntax-typed-and-text"}

Ref(reps) == reps[CHOOSE i \in DOMAIN reps : reps[i].repr = "go"]

\* all renderings of a compilable specification load, compile and behave like the reference
SameBehaviour(reps) ==
  \A i \in DOMAIN reps : /\ reps[i].load = "" /\ reps[i].compile = ""
                         /\ reps[i].behaviours = Ref(reps).behaviours
\* unknown interpreters, pattern syntaxes and branching types are rejected when compiling
Rejected(reps) == \A i \in DOMAIN reps : reps[i].load # "" \/ reps[i].compile # ""
\* no walk crashed
NoCrash(reps) == \A i \in DOMAIN reps : \A s \in DOMAIN reps[i].behaviours :
                   \A j \in DOMAIN reps[i].behaviours[s] : reps[i].behaviours[s][j].outcome = "returned"
=============================================================================
