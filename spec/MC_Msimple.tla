----------------------------- MODULE MC_Msimple -----------------------------
(***************************************************************************)
(* A concrete machine for cmd/msimple, read from the configuration the Go  *)
(* driver writes (msimple_config.ndjson): it forwards what it is given     *)
(* under "relay", forwards both halves of a "pair" (a, then b), and        *)
(* remembers the last value it is "set" to, announcing every change.       *)
(***************************************************************************)
EXTENDS Msimple, Json
Config == ndJsonDeserialize("msimple_config.ndjson")[1]
Machine0 == Config.machine
TheInputs == SeqRange(Config.inputs)
CONSTANT MaxN
Bound == n <= MaxN

Has(x, f) == IsObj(x) /\ f \in DOMAIN x[2]
\* the machine is back at rest after every input, whatever it contained
AtRest == StNode(m.st) = "start"
\* what is given under "relay" is printed first
RelayFirst == (last # NoMsg /\ Has(last, "relay")) => (out # <<>> /\ out[1] = last[2]["relay"])
\* depth first: with a pair, everything that a causes is printed before b
RECURSIVE Caused(_)
Caused(x) ==   \* the messages the scenario machine emits, directly or indirectly, for x (pre-order)
  IF Has(x, "relay") THEN <<x[2]["relay"]>> \o Caused(x[2]["relay"])
  ELSE IF Has(x, "pair") /\ Has(x[2]["pair"], "a") /\ Has(x[2]["pair"], "b")
       THEN <<x[2]["pair"][2]["a"]>> \o Caused(x[2]["pair"][2]["a"]) \o <<x[2]["pair"][2]["b"]>> \o Caused(x[2]["pair"][2]["b"])
  ELSE IF Has(x, "set") THEN <<Obj([note |-> Str("latched")])>>
  ELSE <<>>
PreOrder == last # NoMsg => out = Caused(last)
\* the latch holds the value of the LAST set in printing order
Sets(x) == SelectSeq(<<x>> \o Caused(x), LAMBDA y : Has(y, "set"))
LatchHoldsLast == (last # NoMsg /\ Sets(last) # <<>>) =>
                     ("val" \in DOMAIN StBs(m.st) /\ StBs(m.st)["val"] = Sets(last)[Len(Sets(last))][2]["set"])
=============================================================================
