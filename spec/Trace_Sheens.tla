---------------------------- MODULE Trace_Sheens ----------------------------
(***************************************************************************)
(* Conformance of the real single-loop crew with the composed model: one   *)
(* line is one run of a real sio.Crew built from a configuration; for each *)
(* submitted input the observed machine states and reported emissions must *)
(* equal what ProcessMsg of Sheens.tla computes from the previous (model)   *)
(* crew - compared only where the model is deterministic.                  *)
(***************************************************************************)
EXTENDS SheensOps, Json
Trace == ndJsonDeserialize("cases.ndjson")
VARIABLES l, bad, stats
vars == <<l, bad, stats>>

NormMs(m) == [k \in DOMAIN m |-> CoarseSt(NormSt(m[k]))]
RECURSIVE Replay(_, _, _)
\* returns the set of step indexes at which the observation differs from the model
Replay(c, i, cur) ==
  IF i > Len(c.steps) THEN {}
  ELSE LET r == ProcessMsg(cur, c.steps[i].msg)
           obs == c.steps[i]
           same == /\ [k \in DOMAIN r.ms |-> CoarseSt(NormSt(r.ms[k].st))] = NormMs(obs.states)
                   /\ SameBag(r.emitted, obs.emitted)
       IN (IF r.det /\ ~same THEN {i} ELSE {}) \cup (IF r.det THEN Replay(c, i + 1, r.ms) ELSE {})
Labels(c) == IF c.outcome # "returned" THEN {"crash"} ELSE
             IF Replay(c, 1, c.machines) # {} THEN {"crew-differs-from-composed-model"} ELSE {}
Init == l = 1 /\ bad = <<>> /\ stats = [runs |-> 0, steps |-> 0]
Next ==
  /\ l <= Len(Trace)
  /\ l' = l + 1
  /\ LET c == Trace[l] a == Labels(c) IN
     /\ bad' = (IF a = {} THEN bad ELSE Append(bad, [id |-> c.id, line |-> l, sheens |-> a, at |-> Replay(c, 1, c.machines), sigs |-> {}]))
     /\ stats' = [runs |-> stats.runs + 1, steps |-> stats.steps + Len(c.steps)]
Spec == Init /\ [][Next]_vars
Done == (l = Len(Trace) + 1) =>
          /\ ndJsonSerialize("judge_bad.ndjson", bad)
          /\ ndJsonSerialize("judge_stats.ndjson", <<[stats |-> stats, lines |-> Len(Trace)]>>)
Accepted == TLCGet("stats").diameter - 1 = Len(Trace)
=============================================================================
