----------------------------- MODULE SystemOps -----------------------------
(***************************************************************************)
(* The single-loop crew of sio/ as a whole: ordinary machines running real *)
(* specifications (Machine.tla), the two service machines every crew has   *)
(* - the CAPTAIN (sio/captainspec.go: crew operations arrive as messages)  *)
(* and the TIMERS machine (sio/timersspec.go: makeTimer / cancelTimer      *)
(* requests arrive as messages) -, breadth-first re-processing of          *)
(* emissions (Crew.ProcessMsg), and the record of reported changes that a  *)
(* host applies to a store (Crew.GetChanged).                              *)
(*                                                                         *)
(* Three behaviours the code HAD are switchable shapes of the model (all    *)
(* three were defects and are repaired; the shapes remain as negative      *)
(* controls that TLC must refute, and so that a regression is recognised): *)
(*   Wedge          a service machine whose native action reports an error *)
(*                  (or, for the captain, is given a message that is not a  *)
(*                  crew operation) returns to "start" WITH the pattern    *)
(*                  variables of the request still bound; from then on it  *)
(*                  only reacts to a request with the same values          *)
(*                  (SioRequestIgnored of Trace_Timers.tla).               *)
(*   MakeOnPending  "cancel": makeTimer for an id that is pending cancels  *)
(*                  that timer and creates none (Timers.add, as it was);   *)
(*                  "replace": the new timer replaces the pending one (the *)
(*                  code now); "keep": the request is refused and the      *)
(*                  pending timer stays (equally good for the properties). *)
(*   FireDropsBs    a firing timer reports the timers machine's state as   *)
(*                  {timers: map} only: bindings a wedged timers machine   *)
(*                  holds are not part of that report.                     *)
(* The patterns of the service machines are not transcribed: the Go driver *)
(* reads them from the real specifications and writes them into the        *)
(* configuration (Cfg.pats).                                               *)
(*                                                                         *)
(* Crew state  cs = [ms   : mid -> [spec : name, st : state],              *)
(*                   tbs  : bindings of the timers machine (without        *)
(*                          "timers"),                                      *)
(*                   tmap : id -> [msg, u]   (u: generation, unique),      *)
(*                   cbs  : bindings of the captain,  gen : Nat]           *)
(***************************************************************************)
EXTENDS SheensOps

CONSTANTS Cfg, Wedge, MakeOnPending, FireDropsBs

SpecOf(name) == Cfg.specs[name]
ValidIn      == SeqRange(Cfg.validIn)
MakePat      == Cfg.pats.make
CancelPat    == Cfg.pats.cancel

\* queue items: a message, and for a crew operation its abstract content (the real message carries a
\* whole specification; the model keeps a placeholder message and the operation)
Item(m, op) == [m |-> m, op |-> op]
NoOp == [k |-> "none"]

HasKey(m, k) == IsObj(m) /\ k \in DOMAIN m[2]

(***************************************************************************)
(* Routing (Crew.toMachines): a sequence, because a "to" list is presented *)
(* in the listed order; ordered = FALSE where the code iterates over a Go  *)
(* map.                                                                    *)
(***************************************************************************)
RECURSIVE Dedup(_, _)
Dedup(s, seen) == IF s = <<>> THEN <<>>
                  ELSE IF Head(s) \in seen THEN Dedup(Tail(s), seen)
                  ELSE <<Head(s)>> \o Dedup(Tail(s), seen \cup {Head(s)})
Targets(msg, ids) ==
  LET all == [seq |-> SetToSeq(ids), ordered |-> FALSE] IN
  IF ~HasKey(msg, "to") THEN all
  ELSE LET to == msg[2]["to"] IN
       IF IsStr(to) THEN (IF to[2] = "*" THEN all ELSE [seq |-> <<to[2]>>, ordered |-> TRUE])
       ELSE IF IsArr(to) THEN [seq |-> Dedup(SelectSeq([i \in DOMAIN to[2] |-> IF IsStr(to[2][i]) THEN to[2][i][2] ELSE ""],
                                                       LAMBDA x : x # ""), {}),
                               ordered |-> TRUE]
       ELSE all

(***************************************************************************)
(* The timers machine: start --makeTimer--> make --> start,                *)
(*                     start --cancelTimer--> cancel --> start.            *)
(***************************************************************************)
Failed(cs, b) == [cs EXCEPT !.tbs = IF Wedge THEN Put(b, "error", ErrText) ELSE EmptyFn]
TimersPresent(cs, msg) ==
  LET mk == M(MakePat, msg, cs.tbs)
      cn == M(CancelPat, msg, cs.tbs)
  IN IF mk # {} THEN
       LET b == CHOOSE x \in mk : TRUE IN
       [moved |-> TRUE,
        cs |-> IF ~IsStr(b["?in"]) \/ b["?in"][2] \notin ValidIn \/ ~IsStr(b["?id"]) THEN Failed(cs, b)
               ELSE LET id == b["?id"][2] IN
                    IF id \in DOMAIN cs.tmap /\ MakeOnPending = "cancel"
                    THEN [cs EXCEPT !.tbs = EmptyFn, !.tmap = Drop(cs.tmap, id)]
                    ELSE IF id \in DOMAIN cs.tmap /\ MakeOnPending = "keep" THEN Failed(cs, b)
                    ELSE [cs EXCEPT !.tbs = EmptyFn, !.gen = cs.gen + 1,
                                    !.tmap = Put(cs.tmap, id, [msg |-> b["?msg"], u |-> cs.gen + 1])]]
     ELSE IF cn # {} THEN
       LET b == CHOOSE x \in cn : TRUE IN
       [moved |-> TRUE,
        cs |-> IF ~IsStr(b["?id"]) \/ b["?id"][2] \notin DOMAIN cs.tmap THEN Failed(cs, b)
               ELSE [cs EXCEPT !.tbs = EmptyFn, !.tmap = Drop(cs.tmap, b["?id"][2])]]
     ELSE [moved |-> FALSE, cs |-> cs]

(***************************************************************************)
(* The captain: start --?op--> do --> start.                               *)
(***************************************************************************)
LooksLikeOp(m) == HasKey(m, "update") \/ HasKey(m, "delete")
CaptainPresent(cs, it) ==
  LET bound == "?op" \in DOMAIN cs.cbs
      match == ~bound \/ cs.cbs["?op"] = it.m
  IN IF ~match THEN [cs |-> cs, judged |-> TRUE]
     ELSE IF it.op.k = "none"
     THEN \* not a crew operation: the bindings (with ?op) are kept
          [cs |-> IF Wedge THEN [cs EXCEPT !.cbs = Put(cs.cbs, "?op", it.m)] ELSE cs, judged |-> ~LooksLikeOp(it.m)]
     ELSE [judged |-> TRUE,
           cs |-> CASE it.op.k = "add" -> [cs EXCEPT !.cbs = EmptyFn,
                                                    !.ms = Put(cs.ms, it.op.mid, [spec |-> it.op.spec, st |-> it.op.st])]
                    [] it.op.k = "del" -> [cs EXCEPT !.cbs = EmptyFn, !.ms = Drop(cs.ms, it.op.mid)]]

(***************************************************************************)
(* One dequeued message is presented to its targets in turn.               *)
(***************************************************************************)
RECURSIVE PresentSeq(_, _, _, _)
PresentSeq(cs, todo, it, acc) ==    \* acc = [batches, det, tmoved]
  IF todo = <<>> THEN [cs |-> cs, batches |-> acc.batches, det |-> acc.det, tmoved |-> acc.tmoved]
  ELSE LET k == Head(todo) IN
       IF k = "timers" THEN
         LET r == TimersPresent(cs, it.m) IN PresentSeq(r.cs, Tail(todo), it, [acc EXCEPT !.tmoved = acc.tmoved \/ r.moved])
       ELSE IF k = "captain" THEN
         LET r == CaptainPresent(cs, it) IN PresentSeq(r.cs, Tail(todo), it, [acc EXCEPT !.det = acc.det /\ r.judged])
       ELSE IF k \notin DOMAIN cs.ms THEN PresentSeq(cs, Tail(todo), it, acc)
       ELSE LET w == WalkFrom(SpecOf(cs.ms[k].spec), cs.ms[k].st, <<it.m>>, 100, <<>>, TRUE) IN
            PresentSeq([cs EXCEPT !.ms[k].st = w.st], Tail(todo), it,
                       [acc EXCEPT !.batches = IF w.emitted = <<>> THEN acc.batches ELSE Append(acc.batches, w.emitted),
                                   !.det = acc.det /\ w.det])

RECURSIVE SysBfs(_, _, _, _, _, _)
SysBfs(cs, queue, reported, det, tmoved, fuel) ==
  IF queue = <<>> \/ fuel = 0 THEN [cs |-> cs, emitted |-> reported, det |-> det /\ queue = <<>>, tmoved |-> tmoved]
  ELSE LET it  == Head(queue)
           tg  == Targets(it.m, DOMAIN cs.ms)
           r   == PresentSeq(cs, tg.seq, it, [batches |-> <<>>, det |-> det, tmoved |-> tmoved])
           em  == FoldLeft(LAMBDA a, b : a \o b, <<>>, r.batches)
       IN SysBfs(r.cs, Tail(queue) \o [i \in DOMAIN em |-> Item(em[i], NoOp)], reported \o r.batches,
                 r.det /\ (tg.ordered \/ Len(r.batches) <= 1), r.tmoved, fuel - 1)

\* Crew.ProcessMsg for one item
Process(cs, it) == SysBfs(cs, <<it>>, <<>>, TRUE, FALSE, 40)

(***************************************************************************)
(* The store a host keeps by applying every reported change.               *)
(***************************************************************************)
MapProj(tmap) == [id \in DOMAIN tmap |-> tmap[id].msg]
StoreAfter(store, cs, tmoved, tdirty) ==
  [ms |-> cs.ms,
   tm |-> IF tmoved THEN [bs |-> cs.tbs, map |-> MapProj(cs.tmap)]
          ELSE IF tdirty THEN [bs |-> IF FireDropsBs THEN EmptyFn ELSE cs.tbs, map |-> MapProj(cs.tmap)]
          ELSE store.tm]
\* a crew booted from a store
Boot(store, gen) ==
  LET ids == SetToSeq(DOMAIN store.tm.map) IN
  [ms |-> store.ms, tbs |-> store.tm.bs, cbs |-> EmptyFn, gen |-> gen + Len(ids),
   tmap |-> [id \in DOMAIN store.tm.map |-> [msg |-> store.tm.map[id], u |-> gen + (CHOOSE i \in DOMAIN ids : ids[i] = id)]]]
=============================================================================
