----------------------------- MODULE McrewOps -----------------------------
(***************************************************************************)
(* The multi-goroutine host cmd/mcrew as a whole: the in-memory crew and   *)
(* the bolt store behind it (Service.Process / AddMachine / RemMachine     *)
(* write first and change memory only when the write succeeded), a store   *)
(* that can be failing, routing by "to" (a machine id, or the built-in     *)
(* "timers" service - makeTimer / deleteTimer requests are served by       *)
(* Service.toTimers, not by a machine), ASYNCHRONOUS re-processing of      *)
(* emissions (every emitted message is handed to its own goroutine, `go    *)
(* s.Process(...)`, so emitted messages are processed in ANY order,        *)
(* interleaved with client requests and with the messages of firing        *)
(* timers), and timers that fire at any moment and hand their message to   *)
(* Process themselves.  Machines run real specifications under the step /  *)
(* walk / match semantics of Machine.tla (WalkFrom of SheensOps.tla).      *)
(*                                                                         *)
(* `flight` is the bag of Process calls that have been made and have not   *)
(* yet taken the crew lock - the implementation's goroutines waiting at    *)
(* `c.Lock()`; the conformance driver holds them at the verif hook         *)
(* "process-locked" and releases the one the behaviour names.              *)
(*                                                                         *)
(* Named deviation (switchable): EmitOnFailedWrite - when the store        *)
(* rejects the write of a processing step, memory is (rightly) not         *)
(* advanced, but the messages the walk emitted ARE re-processed.           *)
(***************************************************************************)
EXTENDS SheensOps

CONSTANTS Cfg, EmitOnFailedWrite

SpecOf(name) == Cfg.specs[name]
ValidIn == SeqRange(Cfg.validIn)
Inputs == Cfg.inputs
HasKey(m, k) == IsObj(m) /\ k \in DOMAIN m[2]
\* bags of messages: message -> positive count
BagAdd(b, m) == [x \in DOMAIN b \cup {m} |-> IF x = m THEN (IF m \in DOMAIN b THEN b[m] + 1 ELSE 1) ELSE b[x]]
BagDel(b, m) == IF b[m] = 1 THEN [x \in DOMAIN b \ {m} |-> b[x]] ELSE [b EXCEPT ![m] = b[m] - 1]
\* the table of every message that can be in flight (for naming a message in an exported behaviour)
MsgNo(m) == IF \E i \in DOMAIN Cfg.msgs : Cfg.msgs[i] = m THEN CHOOSE i \in DOMAIN Cfg.msgs : Cfg.msgs[i] = m ELSE 0

(***************************************************************************)
(* The state of the host as a record                                       *)
(*   [ms, store : mid -> [spec, st],  healthy : BOOLEAN,  tmap : id -> msg,*)
(*    flight : bag of messages,  errs : Nat,  out : Seq(msg),  last : res, *)
(*    ghost, det : BOOLEAN]                                                *)
(* and its transitions as functions on that record, so that the state      *)
(* machine (McrewSystem.tla) and the trace judge (Trace_McrewSystem.tla)   *)
(* use the same definitions.                                               *)
(***************************************************************************)
S0 == [ms |-> Cfg.init, store |-> Cfg.init, healthy |-> TRUE, tmap |-> EmptyFn, flight |-> EmptyFn, errs |-> 0,
       out |-> <<>>, last |-> "", ghost |-> FALSE, det |-> TRUE]

(***************************************************************************)
(* Service.toTimers                                                        *)
(***************************************************************************)
ToTimers(msg, tm) ==      \* [tmap, err]
  LET bad == [tmap |-> tm, err |-> TRUE] IN
  IF HasKey(msg, "makeTimer") THEN
     LET v == msg[2]["makeTimer"] IN
     IF ~IsObj(v) THEN bad
     ELSE IF "id" \in DOMAIN v[2] /\ ~IsStr(v[2]["id"]) THEN bad
     ELSE IF "in" \notin DOMAIN v[2] THEN bad                \* ("at" is not used by the scenario)
     ELSE IF ~IsStr(v[2]["in"]) \/ v[2]["in"][2] \notin ValidIn THEN bad
     ELSE IF "message" \notin DOMAIN v[2] THEN bad
     ELSE LET id == IF "id" \in DOMAIN v[2] THEN v[2]["id"][2] ELSE "" IN
          IF id \in DOMAIN tm THEN bad
          ELSE [tmap |-> Put(tm, id, v[2]["message"]), err |-> FALSE]
  ELSE IF HasKey(msg, "deleteTimer") THEN
     LET x == msg[2]["deleteTimer"] IN
     IF ~IsStr(x) \/ x[2] \notin DOMAIN tm THEN bad
     ELSE [tmap |-> Drop(tm, x[2]), err |-> FALSE]
  ELSE bad

(***************************************************************************)
(* A Process call is made (by a client, by the goroutine of an emitted     *)
(* message, by a firing timer): Service.Route runs at once, BEFORE the     *)
(* lock - a message addressed to the timers service is served there - and  *)
(* the call then waits for the lock.  Several calls made by one processing *)
(* step start in any order: more than one timers request among them leaves *)
(* the deterministic fragment.                                             *)
(***************************************************************************)
IsTimersMsg(m) == HasKey(m, "to") /\ m[2]["to"] = Str("timers")
Enter(S, m) ==
  IF IsTimersMsg(m)
  THEN LET r == ToTimers(m, S.tmap) IN
       [S EXCEPT !.flight = BagAdd(S.flight, m), !.tmap = r.tmap, !.errs = S.errs + (IF r.err THEN 1 ELSE 0)]
  ELSE [S EXCEPT !.flight = BagAdd(S.flight, m)]
RECURSIVE EnterAll(_, _)
EnterAll(S, s) == IF s = <<>> THEN S ELSE EnterAll(Enter(S, Head(s)), Tail(s))
OneTimersMsgAtMost(s) == Cardinality({i \in DOMAIN s : IsTimersMsg(s[i])}) <= 1

(***************************************************************************)
(* Service.Process for one message, from the moment it holds the lock.     *)
(***************************************************************************)
RECURSIVE WalkAll(_, _, _, _)
WalkAll(ms, todo, msg, acc) ==     \* acc = [moved : mid -> state, em : Seq, det]
  IF todo = {} THEN acc
  ELSE LET k == CHOOSE x \in todo : TRUE
           w == WalkFrom(SpecOf(ms[k].spec), ms[k].st, <<msg>>, 100, <<>>, TRUE)
       IN WalkAll(ms, todo \ {k}, msg,
                  [moved |-> IF w.st # ms[k].st THEN Put(acc.moved, k, w.st) ELSE acc.moved,
                   em |-> acc.em \o w.emitted, det |-> acc.det /\ w.det])

TakeF(S, msg) ==
  LET to == IF HasKey(msg, "to") THEN msg[2]["to"] ELSE Null
      named == IsStr(to)
      R == [S EXCEPT !.flight = BagDel(S.flight, msg), !.out = <<>>]
  IN IF named /\ to[2] = "timers" THEN R       \* served by Route when the call was made; with the lock it does nothing
     ELSE IF named /\ to[2] \in {"ws", "http"} THEN [R EXCEPT !.det = FALSE]   \* not modelled
     ELSE
       LET tg == IF named THEN {to[2]} \cap DOMAIN S.ms ELSE DOMAIN S.ms
           w  == WalkAll(S.ms, tg, msg, [moved |-> EmptyFn, em |-> <<>>, det |-> TRUE])
           em == IF S.healthy \/ EmitOnFailedWrite THEN w.em ELSE <<>>
           A  == IF ~S.healthy THEN R
                 ELSE [R EXCEPT !.ms = [k \in DOMAIN S.ms |-> IF k \in DOMAIN w.moved THEN [S.ms[k] EXCEPT !.st = w.moved[k]] ELSE S.ms[k]],
                                !.store = [k \in DOMAIN S.store \cup DOMAIN w.moved |->
                                             IF k \in DOMAIN w.moved THEN [spec |-> S.ms[k].spec, st |-> w.moved[k]] ELSE S.store[k]]]
           B  == EnterAll(A, em)
       IN [B EXCEPT !.out = em, !.det = S.det /\ w.det /\ OneTimersMsgAtMost(em),
                    !.ghost = S.ghost \/ (~S.healthy /\ em # <<>>)]

SubmitF(S, m) == Enter(S, m)
FireF(S, id) == Enter([S EXCEPT !.tmap = Drop(S.tmap, id)], S.tmap[id])
AddF(S, x) == IF x.mid \in DOMAIN S.ms THEN [S EXCEPT !.last = "exists"]
              ELSE IF ~S.healthy THEN [S EXCEPT !.last = "error"]
              ELSE LET m == [spec |-> x.spec, st |-> x.st] IN
                   [S EXCEPT !.last = "ok", !.ms = Put(S.ms, x.mid, m), !.store = Put(S.store, x.mid, m)]
RemF(S, x) == IF ~S.healthy THEN [S EXCEPT !.last = "error"]
              ELSE [S EXCEPT !.last = "ok", !.ms = Drop(S.ms, x.mid), !.store = Drop(S.store, x.mid)]
FaultF(S) == [S EXCEPT !.healthy = ~S.healthy]
\* a client input
InputF(S, i) == LET x == Inputs[i] IN
                CASE x.k = "msg" -> SubmitF(S, x.m) [] x.k = "add" -> AddF(S, x) [] x.k = "rem" -> RemF(S, x) [] OTHER -> FaultF(S)
=============================================================================
