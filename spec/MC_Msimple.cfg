SPECIFICATION Spec
CONSTANTS TheMachine <- Machine0
 Inputs <- TheInputs
 MaxN = 3
CONSTRAINT Bound
INVARIANT AtRest
INVARIANT RelayFirst
INVARIANT PreOrder
INVARIANT LatchHoldsLast
CHECK_DEADLOCK FALSE
