//go:build verif

// Conformance driver for spec/McrewSystem.tla, compiled INTO cmd/mcrew by `go test -overlay`.
// It replays behaviours (Submit / Take / Fire / add / rem / fault) on a real Service: every Process
// call - made by the driver as a client, by the goroutine of an emitted message, by a firing timer -
// is held at the verif hook "process-locked" (just before it takes the crew lock), and the driver
// releases the one the behaviour names; timer goroutines are held at "timer-wait".  After every
// action it records memory, the bolt store, the pending timers, the waiting calls, the emissions and
// the number of reported errors as plain JSON (sysdrv mcrew-encode turns that into the tagged
// encoding; spec/Trace_McrewSystem.tla judges).
//
//	VERIF_SYS_DIR   directory written by `sysdrv mcrew-config` (specs/*.yaml, mcrewinputs.json)
//	VERIF_SYS_MODE  replay (VERIF_IN = behaviours) | random (VERIF_N, VERIF_SEED, VERIF_MAXLEN)
//	VERIF_OUT_FILE  output (ndjson)
package main

import (
	"bufio"
	"context"
	"encoding/json"
	"fmt"
	"io"
	"log"
	"math/rand"
	"os"
	"path/filepath"
	"sort"
	"strconv"
	"sync"
	"sync/atomic"
	"testing"
	"time"

	"github.com/Comcast/sheens/core"
	"github.com/Comcast/sheens/crew"
	"github.com/Comcast/sheens/match"
)

type sysWait struct {
	canon   string
	msg     interface{}
	release chan struct{}
}

type sysTimer struct {
	arrived chan struct{}
	release chan struct{}
	done    chan string
	once    sync.Once
}

type sysHarness struct {
	sync.Mutex
	waiting    []*sysWait
	afterWrite chan struct{}
	finished   int64 // Process calls that got past their write (atomic)
	timers     map[*TimerEntry]*sysTimer
	byId       map[string]*TimerEntry
	free       bool
}

func canonJSON(x interface{}) string {
	js, _ := json.Marshal(x) // map keys are sorted by encoding/json
	return string(js)
}

func (h *sysHarness) hook(point string, args ...interface{}) {
	switch point {
	case "process-locked":
		h.Lock()
		if h.free {
			h.Unlock()
			return
		}
		var plain interface{}
		json.Unmarshal([]byte(canonJSON(args[0])), &plain)
		w := &sysWait{canon: canonJSON(args[0]), msg: plain, release: make(chan struct{})}
		h.waiting = append(h.waiting, w)
		h.Unlock()
		<-w.release
	case "process-after-write":
		atomic.AddInt64(&h.finished, 1)
		select {
		case h.afterWrite <- struct{}{}:
		default:
		}
	case "timer-added", "timer-wait", "timer-due", "timer-emitted", "timer-abandoned", "timer-cancel-seen":
		id := args[0].(string)
		te := args[1].(*TimerEntry)
		h.Lock()
		t, have := h.timers[te]
		if !have {
			t = &sysTimer{arrived: make(chan struct{}), release: make(chan struct{}, 1), done: make(chan string, 8)}
			h.timers[te] = t
		}
		if point == "timer-added" {
			h.byId[id] = te
		}
		free := h.free
		h.Unlock()
		switch point {
		case "timer-wait":
			t.once.Do(func() { close(t.arrived) })
			if !free {
				<-t.release
			}
		case "timer-due", "timer-abandoned", "timer-cancel-seen":
			select {
			case t.done <- point:
			default:
			}
		}
	}
}

func (h *sysHarness) nwaiting() int {
	h.Lock()
	defer h.Unlock()
	return len(h.waiting)
}

// waitFor waits until n calls are waiting at the gate
func (h *sysHarness) waitFor(n int) bool {
	deadline := time.Now().Add(15 * time.Second) // (patience for a busy machine: the call only has to be scheduled)
	for h.nwaiting() != n {
		if time.Now().After(deadline) {
			return false
		}
		time.Sleep(100 * time.Microsecond)
	}
	return true
}

type sysInput struct {
	K    string                 `json:"k"`
	M    interface{}            `json:"m"`
	Mid  string                 `json:"mid"`
	Spec string                 `json:"spec"`
	Node string                 `json:"node"`
	Bs   map[string]interface{} `json:"bs"`
}

type sysConfig struct {
	Init   map[string]sysInput `json:"init"`
	Inputs []sysInput          `json:"inputs"`
	Msgs   []interface{}       `json:"msgs"`
}

func deepCopyJSON(x interface{}) interface{} {
	var y interface{}
	json.Unmarshal([]byte(canonJSON(x)), &y)
	return y
}

func sysRun(id int, cfg *sysConfig, dir string, acts [][]interface{}, pick func(h *sysHarness, s *Service) []interface{}) vO {
	ctx, cancel := context.WithCancel(context.Background())
	dbf := filepath.Join(dir, fmt.Sprintf("sys-%d.db", id))
	os.Remove(dbf)
	s, err := NewService(ctx, filepath.Join(os.Getenv("VERIF_SYS_DIR"), "specs"), dbf, "")
	if err != nil {
		panic(err)
	}
	s.Emitted = make(chan interface{}, 4096)
	s.Errors = make(chan interface{}, 4096)
	h := &sysHarness{afterWrite: make(chan struct{}, 64), timers: map[*TimerEntry]*sysTimer{}, byId: map[string]*TimerEntry{}}
	setHook(h.hook)
	healthy := true
	defer func() {
		// end of the run: with the context cancelled nothing that is still waiting can emit anything new (actions are
		// interrupted at once, timers stop); every waiting call is then let through and WAITED for, so that no goroutine
		// of this run reaches the hook after the next run has installed its own
		cancel()
		h.Lock()
		h.free = true
		n := int64(len(h.waiting))
		base := atomic.LoadInt64(&h.finished)
		for _, w := range h.waiting {
			close(w.release)
		}
		h.waiting = nil
		for _, t := range h.timers {
			select {
			case t.release <- struct{}{}:
			default:
			}
		}
		h.Unlock()
		deadline := time.Now().Add(3 * time.Second)
		for atomic.LoadInt64(&h.finished) < base+n && time.Now().Before(deadline) {
			time.Sleep(100 * time.Microsecond)
		}
		s.crew.Lock()
		s.crew.Unlock()
		time.Sleep(time.Millisecond)
		if healthy && s.store.db != nil {
			s.store.db.Close()
		}
		os.Remove(dbf)
	}()
	mids := []string{}
	for mid := range cfg.Init {
		mids = append(mids, mid)
	}
	sort.Strings(mids)
	for _, mid := range mids {
		m := cfg.Init[mid]
		if err := s.AddMachine(ctx, m.Spec, mid, m.Node, match.Bindings(deepCopyJSON(m.Bs).(map[string]interface{}))); err != nil {
			panic(err)
		}
	}
	errs := 0
	steps := vT{}
	done := vT{}
	outcome := "returned"
	for i := 0; ; i++ {
		var a []interface{}
		if pick != nil {
			if a = pick(h, s); a == nil {
				break
			}
		} else {
			if i >= len(acts) {
				break
			}
			a = acts[i]
		}
		done = append(done, a)
		step := vO{"act": a, "real": "ok", "res": ""}
		before := h.nwaiting()
		switch a[0].(string) {
		case "s":
			in := cfg.Inputs[int(a[1].(float64))-1]
			switch in.K {
			case "msg":
				go s.Process(ctx, deepCopyJSON(in.M), nil)
				if !h.waitFor(before + 1) {
					step["real"] = "call-never-reached-the-lock"
				}
			case "add":
				step["res"] = classifyErr(s.AddMachine(ctx, in.Spec, in.Mid, in.Node, match.Bindings(deepCopyJSON(in.Bs).(map[string]interface{}))))
			case "rem":
				step["res"] = classifyErr(s.RemMachine(ctx, in.Mid))
			case "fault":
				if healthy {
					s.store.db.Close()
				} else if err := s.store.Open(ctx); err != nil {
					panic(err)
				}
				healthy = !healthy
			}
		case "t":
			// release one waiting call whose message is the named one
			want := canonJSON(cfg.Msgs[int(a[1].(float64))-1])
			var w *sysWait
			h.Lock()
			for k, x := range h.waiting {
				if x.canon == want {
					w = x
					h.waiting = append(h.waiting[:k:k], h.waiting[k+1:]...)
					break
				}
			}
			h.Unlock()
			if w == nil {
				step["real"] = "no-such-call-waiting"
				break
			}
			for len(h.afterWrite) > 0 {
				<-h.afterWrite
			}
			close(w.release)
			select {
			case <-h.afterWrite:
			case <-time.After(3 * time.Second):
				step["real"] = "call-never-finished"
			}
			// the call holds the crew lock until it has handed every emitted message to its goroutine
			s.crew.Lock()
			s.crew.Unlock()
			n := len(s.Emitted)
			if !h.waitFor(before - 1 + n) {
				step["real"] = "emitted-messages-never-reached-the-lock"
			}
		case "f":
			tid := a[1].(string)
			h.Lock()
			te := h.byId[tid]
			t := h.timers[te]
			h.Unlock()
			if te == nil || t == nil {
				step["real"] = "no-such-timer"
				break
			}
			select {
			case <-t.arrived:
			case <-time.After(2 * time.Second):
				step["real"] = "timer-goroutine-never-waited"
			}
			select {
			case t.release <- struct{}{}:
			default:
			}
			select {
			case p := <-t.done:
				if p != "timer-due" {
					step["real"] = p
				} else if !h.waitFor(before + 1) {
					step["real"] = "fired-message-never-reached-the-lock"
				}
			case <-time.After(2 * time.Second):
				step["real"] = "timer-goroutine-stuck"
			}
		}
		// observation
		for len(s.Errors) > 0 {
			<-s.Errors
			errs++
		}
		emitted := vT{}
		for len(s.Emitted) > 0 {
			emitted = append(emitted, deepCopyJSON(<-s.Emitted))
		}
		mem := vO{}
		for mid, m := range s.crew.Machines {
			mem[mid] = vO{"spec": m.SpecSource.Name, "node": m.State.NodeName, "bs": deepCopyJSON(map[string]interface{}(m.State.Bs))}
		}
		store := vO{}
		storeErr := ""
		if healthy {
			mss, err := s.store.GetCrew(ctx, s.crewName)
			if err != nil {
				storeErr = err.Error()
			}
			for _, ms := range mss {
				name := ""
				if ms.SpecSource != nil {
					name = ms.SpecSource.Name
				}
				store[ms.Mid] = vO{"spec": name, "node": ms.NodeName, "bs": deepCopyJSON(map[string]interface{}(ms.Bs))}
			}
		} else {
			storeErr = "closed"
		}
		tm := vO{}
		s.timers.Lock()
		for tid, te := range s.timers.timers {
			tm[tid] = deepCopyJSON(te.Message)
		}
		s.timers.Unlock()
		fl := vT{}
		h.Lock()
		for _, w := range h.waiting {
			fl = append(fl, w.msg)
		}
		h.Unlock()
		step["mem"], step["store"], step["storeErr"], step["timers"], step["flight"], step["emitted"], step["errs"] = mem, store, storeErr, tm, fl, emitted, errs
		steps = append(steps, step)
		if step["real"] != "ok" {
			break
		}
	}
	raw, _ := json.Marshal(vO{"acts": done})
	return vO{"id": id, "kind": "mcrew-system", "steps": steps, "outcome": outcome, "raw": string(raw)}
}

func TestVerifSystem(t *testing.T) {
	mode := os.Getenv("VERIF_SYS_MODE")
	if mode == "" {
		t.Skip("verif system driver: VERIF_SYS_MODE not set")
	}
	log.SetOutput(io.Discard)
	Verbose = false
	var cfg sysConfig
	if mode != "getspec" {
		js, err := os.ReadFile(filepath.Join(os.Getenv("VERIF_SYS_DIR"), "mcrewinputs.json"))
		if err != nil {
			t.Fatal(err)
		}
		if err := json.Unmarshal(js, &cfg); err != nil {
			t.Fatal(err)
		}
	}
	f, err := os.Create(os.Getenv("VERIF_OUT_FILE"))
	if err != nil {
		t.Fatal(err)
	}
	defer f.Close()
	w := bufio.NewWriterSize(f, 1<<20)
	defer w.Flush()
	enc := json.NewEncoder(w)
	enc.SetEscapeHTML(false)
	dir, err := os.MkdirTemp("", "verif-mcrew-sys")
	if err != nil {
		t.Fatal(err)
	}
	defer os.RemoveAll(dir)
	switch mode {
	case "getspec":
		getspecMode(t, enc)
	case "replay":
		in, err := os.Open(os.Getenv("VERIF_IN"))
		if err != nil {
			t.Fatal(err)
		}
		sc := bufio.NewScanner(in)
		sc.Buffer(make([]byte, 1<<20), 1<<26)
		id := 0
		for sc.Scan() {
			var b struct {
				Acts [][]interface{} `json:"acts"`
			}
			if err := json.Unmarshal(sc.Bytes(), &b); err != nil {
				t.Fatal(err)
			}
			id++
			enc.Encode(sysRun(id, &cfg, dir, b.Acts, nil))
		}
	case "random":
		n, _ := strconv.Atoi(os.Getenv("VERIF_N"))
		seed, _ := strconv.Atoi(os.Getenv("VERIF_SEED"))
		maxlen, _ := strconv.Atoi(os.Getenv("VERIF_MAXLEN"))
		rng := rand.New(rand.NewSource(int64(seed)))
		index := map[string]int{}
		for i, m := range cfg.Msgs {
			index[canonJSON(m)] = i + 1
		}
		for id := 1; id <= n; id++ {
			left := 2 + rng.Intn(maxlen-1)
			pick := func(h *sysHarness, s *Service) []interface{} {
				if left == 0 {
					return nil
				}
				left--
				for {
					switch x := rng.Intn(10); {
					case x < 4:
						return []interface{}{"s", float64(1 + rng.Intn(len(cfg.Inputs)))}
					case x < 8:
						h.Lock()
						var k int
						if len(h.waiting) > 0 {
							k = index[h.waiting[rng.Intn(len(h.waiting))].canon]
						}
						h.Unlock()
						if k > 0 {
							return []interface{}{"t", float64(k)}
						}
					default:
						ids := []string{}
						s.timers.Lock()
						for tid := range s.timers.timers {
							ids = append(ids, tid)
						}
						s.timers.Unlock()
						sort.Strings(ids)
						if len(ids) > 0 {
							return []interface{}{"f", ids[rng.Intn(len(ids))]}
						}
					}
				}
			}
			enc.Encode(sysRun(id, &cfg, dir, nil, pick))
		}
	}
}

// getspecMode (C13): every YAML file loaderdrv exported is loaded through the real Service.GetSpec (file with inlines,
// YAML, compiled with the service's interpreters) and walked over the case's message sequences, exactly as loaderdrv
// walks its other renderings; results are plain JSON (loaderdrv merge encodes them).
func getspecMode(t *testing.T, enc *json.Encoder) {
	dir := os.Getenv("VERIF_SYS_DIR")
	ctx := context.Background()
	s, err := NewService(ctx, filepath.Join(dir, "specs"), "", "")
	if err != nil {
		t.Fatal(err)
	}
	in, err := os.Open(filepath.Join(dir, "getspec_in.ndjson"))
	if err != nil {
		t.Fatal(err)
	}
	sc := bufio.NewScanner(in)
	sc.Buffer(make([]byte, 1<<20), 1<<28)
	for sc.Scan() {
		var c struct {
			Id   int             `json:"id"`
			Name string          `json:"name"`
			Seqs [][]interface{} `json:"seqs"`
		}
		if err := json.Unmarshal(sc.Bytes(), &c); err != nil {
			t.Fatal(err)
		}
		out := vO{"id": c.Id, "err": "", "seqs": vT{}}
		var spec *core.Spec
		func() {
			defer func() {
				if r := recover(); r != nil {
					out["err"] = fmt.Sprintf("panic: %v", r)
				}
			}()
			specter, err := s.GetSpec(ctx, &crew.SpecSource{Name: c.Name})
			if err != nil {
				out["err"] = err.Error()
				return
			}
			spec = specter.Spec()
		}()
		if spec != nil {
			seqs := vT{}
			for _, ms := range c.Seqs {
				st := &core.State{NodeName: "start", Bs: match.Bindings{}}
				steps := vT{}
				for _, m := range ms {
					var w *core.Walked
					outcome := "returned"
					func() {
						defer func() {
							if r := recover(); r != nil {
								outcome = "panicked"
							}
						}()
						w, _ = spec.Walk(ctx, st, []interface{}{deepCopyJSON(m)}, &core.Control{Limit: 100}, nil)
					}()
					if w == nil {
						steps = append(steps, vO{"outcome": outcome, "none": true})
						continue
					}
					if to := w.To(); to != nil {
						st = to
					}
					em := vT{}
					w.DoEmitted(func(x interface{}) error { em = append(em, deepCopyJSON(x)); return nil })
					steps = append(steps, vO{"outcome": outcome, "node": st.NodeName, "bs": deepCopyJSON(map[string]interface{}(st.Bs)), "emitted": em})
				}
				seqs = append(seqs, steps)
			}
			out["seqs"] = seqs
		}
		enc.Encode(out)
	}
}
