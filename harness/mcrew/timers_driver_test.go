//go:build verif

package main

import (
	"encoding/json"
	"math/rand"
	"testing"
)

func timersMain(t *testing.T, enc *json.Encoder, rng *rand.Rand, n int) {
	t.Fatal("timers driver not built yet")
}
