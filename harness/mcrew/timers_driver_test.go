//go:build verif

package main

import (
	"bufio"
	"context"
	"encoding/json"
	"math/rand"
	"os"
	"sort"
	"strconv"
	"sync"
	"testing"
	"time"
)

// Timer conformance driver for cmd/mcrew/timers.go (C17).  Every Add carries a token (the
// operation's index) in its message, so a firing identifies the timer instance.  Gate
// schedules exported by TLC (spec/Timers.tla) are replayed by holding each timer goroutine
// at the verif-tag hook points; requests are also issued from inside the handler of a
// firing message; free-running stress completes the picture.

const shortDelay = 30 * time.Millisecond
const longDelay = time.Hour

type tmInst struct {
	arrived chan string
	release chan bool
}

type tmHarness struct {
	sync.Mutex
	rec     *recorder
	ts      *Timers
	inst    map[*TimerEntry]int
	ctl     map[int]*tmInst
	at      map[int]time.Time
	n       int
	freeRun bool
	opn     int
	handler map[int][][]string // token -> requests issued from inside the handler of that firing
}

func newTmHarness(gated bool) *tmHarness {
	h := &tmHarness{rec: &recorder{t0: time.Now()}, inst: map[*TimerEntry]int{}, ctl: map[int]*tmInst{}, at: map[int]time.Time{}, handler: map[int][][]string{}, freeRun: !gated}
	h.ts = NewTimers(func(ctx context.Context, msg interface{}) error {
		m, _ := msg.(map[string]interface{})
		tok, _ := m["token"].(int)
		h.rec.add(vO{"ev": "fire", "token": tok, "id": m["id"]})
		for _, req := range h.handler[tok] {
			h.request(ctx, req[0], req[1], req[2] == "short")
		}
		return nil
	})
	setHook(func(point string, args ...interface{}) {
		switch point {
		case "timer-added":
			h.Lock()
			h.n++
			te := args[1].(*TimerEntry)
			h.inst[te] = h.n
			h.at[h.n] = te.At
			h.ctl[h.n] = &tmInst{arrived: make(chan string, 1), release: make(chan bool, 1)}
			h.Unlock()
		case "timer-removed":
		case "timer-wait", "timer-due", "timer-emitted", "timer-cleaned", "timer-cancel-seen", "timer-abandoned":
			h.Lock()
			u := h.inst[args[1].(*TimerEntry)]
			c := h.ctl[u]
			free := h.freeRun
			h.Unlock()
			h.rec.add(vO{"ev": "hook", "point": point, "u": u})
			if free || c == nil {
				return
			}
			c.arrived <- point
			<-c.release
		}
	})
	return h
}

func (h *tmHarness) request(ctx context.Context, kind, id string, short bool) string {
	h.Lock()
	h.opn++
	op := h.opn
	h.Unlock()
	d := longDelay
	if short {
		d = shortDelay
	}
	h.rec.add(vO{"ev": "call", "op": op, "kind": kind, "id": id, "d": int(d / time.Millisecond)})
	var err error
	if kind == "add" {
		err = h.ts.Add(ctx, id, map[string]interface{}{"token": op, "id": id}, d)
	} else {
		err = h.ts.Rem(ctx, id)
	}
	res := classifyErr(err)
	h.rec.add(vO{"ev": "ret", "op": op, "res": res})
	return res
}

func (h *tmHarness) pendingIds() vT {
	h.ts.Lock()
	ids := []string{}
	for id := range h.ts.timers {
		ids = append(ids, id)
	}
	h.ts.Unlock()
	sort.Strings(ids)
	out := vT{}
	for _, id := range ids {
		out = append(out, id)
	}
	return out
}

// finish lets everything run freely, waits long enough for every short timer, and snapshots.
func (h *tmHarness) finish(id int, kind string, raw interface{}, realised bool) vO {
	h.Lock()
	h.freeRun = true
	for _, c := range h.ctl {
		select {
		case c.release <- true:
		default:
		}
	}
	h.Unlock()
	time.Sleep(shortDelay*2 + 40*time.Millisecond)
	// drain gates of goroutines that were parked while we slept
	h.Lock()
	for _, c := range h.ctl {
		select {
		case <-c.arrived:
			c.release <- true
		default:
		}
	}
	h.Unlock()
	time.Sleep(20 * time.Millisecond)
	h.rec.add(vO{"ev": "snap", "pending": h.pendingIds()})
	h.ts.Shutdown()
	setHook(nil)
	js, _ := json.Marshal(raw)
	h.rec.Lock()
	evs := h.rec.events
	h.rec.Unlock()
	return vO{"id": id, "kind": kind, "impl": "mcrew", "events": evs, "realised": realised, "outcome": "returned", "raw": string(js),
		"short": int(shortDelay / time.Millisecond), "long": int(longDelay / time.Millisecond)}
}

type tmSchedule struct {
	Sched [][]interface{} `json:"sched"`
}

func replayTimerSchedule(id int, sc *tmSchedule) vO {
	ctx, cancel := context.WithCancel(context.Background())
	defer cancel()
	h := newTmHarness(true)
	realised := true
	waitFor := func(u int, want ...string) bool {
		h.Lock()
		c := h.ctl[u]
		h.Unlock()
		if c == nil {
			return false
		}
		select {
		case got := <-c.arrived:
			for _, w := range want {
				if got == w {
					return true
				}
			}
			// some other point: leave the goroutine parked there
			return false
		case <-time.After(80 * time.Millisecond):
			return false
		}
	}
	release := func(u int) {
		h.Lock()
		c := h.ctl[u]
		h.Unlock()
		if c != nil {
			select {
			case c.release <- true:
			default:
			}
		}
	}
	parked := map[int]bool{}
	for _, st := range sc.Sched {
		kind := st[0].(string)
		x := int(st[1].(float64))
		switch kind {
		case "add":
			before := h.n
			if h.request(ctx, "add", "t"+strconv.Itoa(x), true) == "ok" {
				// the new goroutine parks at its pre-select gate
				if waitFor(before+1, "timer-wait") {
					parked[before+1] = true
				} else {
					realised = false
				}
			}
		case "rem":
			h.request(ctx, "rem", "t"+strconv.Itoa(x), true)
		case "tick":
			h.Lock()
			at, have := h.at[x]
			h.Unlock()
			if !have {
				realised = false
				break
			}
			if d := time.Until(at); d > 0 {
				time.Sleep(d)
			}
			time.Sleep(3 * time.Millisecond)
		case "due":
			release(x)
			if !waitFor(x, "timer-due") {
				realised = false
			}
		case "cancel-seen":
			release(x)
			if !waitFor(x, "timer-cancel-seen") {
				realised = false
			}
		case "emitted":
			release(x)
			if !waitFor(x, "timer-emitted") {
				realised = false
			}
		case "cleaned":
			release(x)
			if !waitFor(x, "timer-cleaned") {
				realised = false
			}
		}
		if !realised {
			break
		}
	}
	return h.finish(id, "timer-sched", sc, realised)
}

// handlerScenario: requests issued from inside the handler of the firing message.
func handlerScenario(id int, rng *rand.Rand) vO {
	ctx, cancel := context.WithCancel(context.Background())
	defer cancel()
	h := newTmHarness(false)
	plans := [][][]string{
		{{"add", "t1", "long"}},
		{{"add", "t1", "short"}},
		{{"rem", "t1", ""}, {"add", "t1", "long"}},
		{{"rem", "t1", ""}, {"add", "t1", "short"}},
		{{"add", "t2", "short"}, {"add", "t1", "long"}},
		{{"rem", "t1", ""}},
	}
	plan := plans[rng.Intn(len(plans))]
	h.handler[1] = plan // token 1 = the first request below
	h.request(ctx, "add", "t1", true)
	after := [][]string{}
	time.Sleep(shortDelay + 25*time.Millisecond)
	// after the firing: the id must be free, and a timer re-created under it must be cancellable
	for _, r := range [][]string{{"add", "t1", "long"}, {"rem", "t1", ""}, {"add", "t1", "short"}}[:1+rng.Intn(3)] {
		h.request(ctx, r[0], r[1], r[2] == "short")
		after = append(after, r)
	}
	return h.finish(id, "timer-handler", vO{"handler": plan, "after": after}, true)
}

// stress: free-running random requests over two ids with short and long delays.
func timerStress(id int, rng *rand.Rand) vO {
	ctx, cancel := context.WithCancel(context.Background())
	defer cancel()
	h := newTmHarness(false)
	plan := [][]string{}
	for i, n := 0, 4+rng.Intn(8); i < n; i++ {
		r := []string{"add", "t" + strconv.Itoa(1+rng.Intn(2)), "short"}
		if rng.Intn(3) == 0 {
			r[0] = "rem"
		}
		if rng.Intn(4) == 0 {
			r[2] = "long"
		}
		plan = append(plan, r)
		h.request(ctx, r[0], r[1], r[2] == "short")
		time.Sleep(time.Duration(rng.Intn(25)) * time.Millisecond)
	}
	return h.finish(id, "timer-stress", vO{"plan": plan}, true)
}

func timersMain(t *testing.T, enc *json.Encoder, rng *rand.Rand, n int) {
	switch os.Getenv("VERIF_TIMERS") {
	case "sched":
		in, err := os.Open(os.Getenv("VERIF_IN"))
		if err != nil {
			t.Fatal(err)
		}
		sc := bufio.NewScanner(in)
		sc.Buffer(make([]byte, 1<<20), 1<<26)
		id := 0
		reps, _ := strconv.Atoi(os.Getenv("VERIF_REPS"))
		if reps < 1 {
			reps = 1
		}
		for sc.Scan() {
			var s tmSchedule
			if err := json.Unmarshal(sc.Bytes(), &s); err != nil {
				t.Fatal(err)
			}
			for r := 0; r < reps; r++ {
				id++
				enc.Encode(replayTimerSchedule(id, &s))
			}
		}
	case "handler":
		for id := 1; id <= n; id++ {
			enc.Encode(handlerScenario(id, rng))
		}
	case "stress":
		for id := 1; id <= n; id++ {
			enc.Encode(timerStress(id, rng))
		}
	default:
		t.Fatal("VERIF_TIMERS must be sched | handler | stress")
	}
}
