//go:build verif

// Overlay driver for cmd/mcrew (package main cannot be imported): this file is added
// to the package with `go test -overlay` and gives the harness access to Service,
// Timers and Storage.  It replays gate schedules exported by TLC, injects storage
// faults by closing/reopening the bolt handle, and records call/return/hook events
// with a global sequence number.  No property logic: TLC judges the traces.
//
// Selected by environment: VERIF_MODE, VERIF_IN, VERIF_OUT_FILE, VERIF_SEED, VERIF_N.
package main

import (
	"bufio"
	"bytes"
	"context"
	"encoding/json"
	"fmt"
	"io"
	"log"
	"math/rand"
	"os"
	"path/filepath"
	"runtime"
	"sort"
	"strconv"
	"strings"
	"sync"
	"sync/atomic"
	"testing"
	"time"

	"github.com/Comcast/sheens/core"
	"github.com/Comcast/sheens/match"
)

type vT = []interface{}
type vO = map[string]interface{}

const counterSpec = `name: counter
nodes:
  start:
    branching:
      type: message
      branches:
      - pattern: {"boom": "?b"}
        guard:
          interpreter: ecmascript
          source: |-
            throw "boom";
        target: rec
      - pattern: {"m": "?m"}
        target: rec
  rec:
    action:
      interpreter: ecmascript
      source: |-
        var bs = _.bindings; bs.log = (bs.log || []).concat([bs["?m"]]); delete bs["?m"];
        if (bs.emit) { for (var i = 0; i < bs.emit.length; i++) { _.out(bs.emit[i]); } }
        return bs;
    branching:
      branches:
      - target: start
`

// counter2: the same machine with another specification - it tags what it records
var counterSpec2 = strings.Replace(strings.Replace(counterSpec, "name: counter", "name: counter2", 1), `concat([bs["?m"]])`, `concat(["2:" + bs["?m"]])`, 1)

// ---------------------------------------------------------------- the hook
//
// The repository's hook variable (verif_on.go) is read by service and timer goroutines without synchronisation; goroutines
// of a finished history may still be running when the next history begins.  So the variable is written ONCE, before any
// goroutine exists, with a dispatcher that forwards to whatever the current harness has put into an atomic value.

type hookFn func(point string, args ...interface{})

var (
	hookOnce    sync.Once
	currentHook atomic.Value // hookFn
)

func setHook(f hookFn) {
	hookOnce.Do(func() {
		currentHook.Store(hookFn(nil))
		verifHook = func(point string, args ...interface{}) {
			if h, _ := currentHook.Load().(hookFn); h != nil {
				h(point, args...)
			}
		}
	})
	currentHook.Store(f)
}

// ---------------------------------------------------------------- recorder

type recorder struct {
	sync.Mutex
	seq    int
	events vT
	t0     time.Time
}

func (r *recorder) add(ev vO) {
	r.Lock()
	r.seq++
	ev["seq"] = r.seq
	ev["t"] = int(time.Since(r.t0) / time.Millisecond)
	r.events = append(r.events, ev)
	r.Unlock()
}

// ---------------------------------------------------------------- goroutine identity and gates

func gid() int {
	var buf [64]byte
	n := runtime.Stack(buf[:], false)
	f := bytes.Fields(buf[:n])
	id, _ := strconv.Atoi(string(f[1]))
	return id
}

type opCtl struct {
	arrived chan string
	release chan bool
}

type gates struct {
	sync.Mutex
	ops     map[int]*opCtl // by goroutine id
	freeRun bool
}

func (g *gates) hook(point string) {
	g.Lock()
	oc := g.ops[gid()]
	free := g.freeRun
	g.Unlock()
	if oc == nil || free {
		return
	}
	oc.arrived <- point
	<-oc.release
}

// ---------------------------------------------------------------- service set-up

func newVerifService(ctx context.Context, dir string) (*Service, error) {
	specDir := filepath.Join(dir, "specs")
	os.MkdirAll(specDir, 0755)
	if err := os.WriteFile(filepath.Join(specDir, "counter.yaml"), []byte(counterSpec), 0644); err != nil {
		return nil, err
	}
	if err := os.WriteFile(filepath.Join(specDir, "counter2.yaml"), []byte(counterSpec2), 0644); err != nil {
		return nil, err
	}
	s, err := NewService(ctx, specDir, filepath.Join(dir, "verif.db"), "")
	if err != nil {
		return nil, err
	}
	s.Emitted = make(chan interface{}, 4096)
	return s, nil
}

func logOf(bs match.Bindings) vT {
	out := vT{}
	if xs, is := bs["log"].([]interface{}); is {
		for _, x := range xs {
			out = append(out, fmt.Sprint(x))
		}
	}
	if _, failed := bs["error"]; failed {
		// (a machine that failed - its first step for a "boom" message errs - sits at the error node with the diagnostic
		// bindings: the abstraction of its state ends with this marker)
		out = append(out, "@err")
	}
	return out
}

func snapService(ctx context.Context, s *Service) vO {
	mem := vO{}
	c := s.crew.Copy()
	for mid, m := range c.Machines {
		mem[mid] = logOf(m.State.Bs)
	}
	store := vO{}
	storeErr := ""
	mss, err := s.store.GetCrew(ctx, s.crewName)
	if err != nil {
		storeErr = err.Error()
	}
	for _, ms := range mss {
		store[ms.Mid] = logOf(ms.Bs)
	}
	return vO{"ev": "snap", "mem": mem, "store": store, "storeErr": storeErr}
}

func classifyErr(err error) string {
	switch {
	case err == nil:
		return "ok"
	case err == Exists:
		return "exists"
	case err == NotFound:
		return "notfound"
	}
	return "error"
}

type svcOp struct {
	Kind string
	Mid  string
	Msg  string
}

func doSvcOp(ctx context.Context, s *Service, rec *recorder, i int, op svcOp) {
	rec.add(vO{"ev": "call", "op": i, "kind": op.Kind, "mid": op.Mid, "msg": op.Msg, "boom": op.Kind == "proc" && strings.HasPrefix(op.Msg, "boom")})
	switch op.Kind {
	case "add":
		actx := ctx
		if i%3 == 0 {
			// (a request whose context has ended by the time it is served: what it does to memory and what it does to the
			// store still go together)
			c2, cancel := context.WithCancel(ctx)
			cancel()
			actx = c2
		}
		err := s.AddMachine(actx, "counter", op.Mid, "", nil)
		rec.add(vO{"ev": "ret", "op": i, "kind": op.Kind, "res": classifyErr(err), "walks": vO{}})
	case "add2":
		// a machine with the other specification; its log starts with a marker (the model tells the two kinds apart by it)
		err := s.AddMachine(ctx, "counter2", op.Mid, "", match.Bindings{"log": []interface{}{"#2"}})
		rec.add(vO{"ev": "ret", "op": i, "kind": op.Kind, "res": classifyErr(err), "walks": vO{}})
	case "rem":
		rctx := ctx
		if i%4 == 0 {
			c2, cancel := context.WithCancel(ctx)
			cancel()
			rctx = c2
		}
		err := s.RemMachine(rctx, op.Mid)
		rec.add(vO{"ev": "ret", "op": i, "kind": op.Kind, "res": classifyErr(err), "walks": vO{}})
	case "proc":
		msg := map[string]interface{}{"m": op.Msg}
		if strings.HasPrefix(op.Msg, "boom") {
			msg = map[string]interface{}{"boom": op.Msg}
		}
		if op.Mid != "*" {
			msg["to"] = op.Mid
		}
		walkeds, err := s.Process(ctx, msg, nil)
		walks := vO{}
		for mid, w := range walkeds {
			from, to := vT{}, vT{}
			if f := w.From(); f != nil {
				from = logOf(f.Bs)
			}
			to = from
			if t := w.To(); t != nil {
				to = logOf(t.Bs)
			}
			walks[mid] = vO{"from": from, "to": to}
		}
		rec.add(vO{"ev": "ret", "op": i, "kind": op.Kind, "res": classifyErr(err), "walks": walks})
	case "read":
		c := s.crew.Copy()
		mem := vO{}
		for mid, m := range c.Machines {
			mem[mid] = logOf(m.State.Bs)
		}
		rec.add(vO{"ev": "ret", "op": i, "kind": op.Kind, "res": "ok", "walks": vO{}, "crew": mem})
	}
}

func toggleStore(ctx context.Context, s *Service, rec *recorder, fail bool) {
	if fail {
		s.store.db.Close()
	} else {
		if err := s.store.Open(ctx); err != nil {
			panic(err)
		}
	}
	rec.add(vO{"ev": "fault", "on": fail})
}

// ---------------------------------------------------------------- replaying one gate schedule

type schedule struct {
	Scenario int             `json:"scenario"`
	Ops      [][]string      `json:"ops"`
	Sched    [][]interface{} `json:"sched"`
}

func replaySchedule(id int, sc *schedule, dir string, stepTimeout time.Duration) vO {
	ctx, cancel := context.WithCancel(context.Background())
	defer cancel()
	s, err := newVerifService(ctx, dir)
	if err != nil {
		panic(err)
	}
	defer func() {
		if s.store.db != nil {
			s.store.db.Close()
		}
		os.Remove(filepath.Join(dir, "verif.db"))
	}()
	rec := &recorder{t0: time.Now()}
	g := &gates{ops: map[int]*opCtl{}}
	setHook(func(point string, args ...interface{}) {
		switch point {
		case "add-before-write", "rem-before-write", "process-before-write":
			g.hook(point)
		}
	})
	defer setHook(nil)

	ops := make([]svcOp, len(sc.Ops))
	for i, o := range sc.Ops {
		ops[i] = svcOp{Kind: o[0], Mid: o[1]}
		if len(o) > 2 {
			ops[i].Msg = o[2]
		}
	}
	ctl := make([]*opCtl, len(ops))
	started := make([]bool, len(ops))
	finished := make([]bool, len(ops))
	var wg sync.WaitGroup
	start := func(i int) {
		oc := &opCtl{arrived: make(chan string, 1), release: make(chan bool, 1)}
		ctl[i] = oc
		started[i] = true
		ready := make(chan bool)
		wg.Add(1)
		go func() {
			defer wg.Done()
			g.Lock()
			g.ops[gid()] = oc
			g.Unlock()
			close(ready)
			doSvcOp(ctx, s, rec, i+1, ops[i])
			oc.arrived <- "ret"
		}()
		<-ready
	}
	realised := true
	failing := false
	for _, st := range sc.Sched {
		c := int(st[0].(float64))
		point := st[1].(string)
		if c == 0 {
			failing = point == "fail"
			toggleStore(ctx, s, rec, failing)
			continue
		}
		i := c - 1
		if finished[i] {
			continue
		}
		if !started[i] {
			start(i)
		} else {
			ctl[i].release <- true
		}
		// let op i run until it reaches the named point (or returns)
		for {
			var got string
			select {
			case got = <-ctl[i].arrived:
			case <-time.After(stepTimeout):
				got = "timeout"
			}
			if got == "timeout" {
				realised = false
				break
			}
			if got == "ret" {
				finished[i] = true
				break
			}
			rec.add(vO{"ev": "hook", "op": c, "point": got})
			if got == point {
				break
			}
			ctl[i].release <- true
		}
		if !realised {
			break
		}
	}
	// let everything that is still running finish freely
	g.Lock()
	g.freeRun = true
	g.Unlock()
	for i := range ops {
		if started[i] && !finished[i] {
			select {
			case ctl[i].release <- true:
			default:
			}
		}
	}
	for i := range ops {
		if !started[i] {
			start(i)
		}
	}
	done := make(chan bool)
	go func() { wg.Wait(); close(done) }()
	outcome := "returned"
	select {
	case <-done:
	case <-time.After(10 * time.Second):
		outcome = "hung"
	}
	if failing {
		toggleStore(ctx, s, rec, false)
	}
	rec.add(snapService(ctx, s))
	raw, _ := json.Marshal(sc)
	return vO{"id": id, "kind": "sched", "events": rec.events, "realised": realised, "outcome": outcome, "raw": string(raw)}
}

// ---------------------------------------------------------------- sequential fault histories

func faultHistory(id int, rng *rand.Rand, dir string, given *vO) vO {
	ctx, cancel := context.WithCancel(context.Background())
	defer cancel()
	s, err := newVerifService(ctx, dir)
	if err != nil {
		panic(err)
	}
	defer func() {
		if s.store.db != nil {
			s.store.db.Close()
		}
		os.Remove(filepath.Join(dir, "verif.db"))
	}()
	rec := &recorder{t0: time.Now()}
	mids := []string{"a", "b", "c"}
	var plan []vO
	if given != nil {
		for _, x := range (*given)["plan"].([]interface{}) {
			plan = append(plan, x.(map[string]interface{}))
		}
	} else {
		n := 3 + rng.Intn(6)
		for i := 0; i < n; i++ {
			if rng.Intn(4) == 0 {
				plan = append(plan, vO{"toggle": true})
			}
			op := vO{"mid": mids[rng.Intn(len(mids))], "msg": "m" + strconv.Itoa(i+1)}
			switch r := rng.Intn(10); {
			case r < 3:
				op["kind"] = "add"
			case r < 5:
				op["kind"] = "rem"
			case r < 9:
				op["kind"] = "proc"
				if rng.Intn(4) == 0 {
					op["mid"] = "*"
				}
				if rng.Intn(6) == 0 {
					op["msg"] = "boom" + strconv.Itoa(i+1) // the first step of the walk errs
				}
			default:
				op["kind"] = "read"
			}
			plan = append(plan, op)
		}
	}
	failing := false
	i := 0
	for _, p := range plan {
		if _, is := p["toggle"]; is {
			failing = !failing
			toggleStore(ctx, s, rec, failing)
			continue
		}
		i++
		doSvcOp(ctx, s, rec, i, svcOp{Kind: p["kind"].(string), Mid: p["mid"].(string), Msg: p["msg"].(string)})
		if !failing {
			rec.add(snapService(ctx, s))
		}
	}
	if failing {
		toggleStore(ctx, s, rec, false)
	}
	rec.add(snapService(ctx, s))
	raw, _ := json.Marshal(vO{"plan": plan})
	return vO{"id": id, "kind": "faults", "events": rec.events, "realised": true, "outcome": "returned", "raw": string(raw)}
}

// ---------------------------------------------------------------- free-running concurrent clients

func concurrentHistory(id int, rng *rand.Rand, dir string) vO {
	ctx, cancel := context.WithCancel(context.Background())
	defer cancel()
	s, err := newVerifService(ctx, dir)
	if err != nil {
		panic(err)
	}
	defer func() {
		if s.store.db != nil {
			s.store.db.Close()
		}
		os.Remove(filepath.Join(dir, "verif.db"))
	}()
	rec := &recorder{t0: time.Now()}
	mids := []string{"a", "b"}
	nc := 2 + rng.Intn(3)
	var wg sync.WaitGroup
	opn := 0
	type planned struct {
		i  int
		op svcOp
	}
	plans := make([][]planned, nc)
	for c := 0; c < nc; c++ {
		for k, n := 0, 1+rng.Intn(3); k < n; k++ {
			opn++
			op := svcOp{Mid: mids[rng.Intn(len(mids))], Msg: "m" + strconv.Itoa(opn)}
			switch r := rng.Intn(12); {
			case r < 3:
				op.Kind = "add"
			case r < 4:
				op.Kind = "add2"
			case r < 6:
				op.Kind = "rem"
			case r < 10:
				op.Kind = "proc"
				if rng.Intn(3) == 0 {
					op.Mid = "*" // every machine moves in one request: a reader sees all of it or none of it
				}
			default:
				op.Kind = "read"
			}
			plans[c] = append(plans[c], planned{opn, op})
		}
	}
	if rng.Intn(3) == 0 {
		// one client replaces a machine by one with another specification while the others send it messages
		opn++
		plans[0] = []planned{{opn, svcOp{Kind: "add", Mid: "a", Msg: "m" + strconv.Itoa(opn)}}}
		for c := 1; c < nc; c++ {
			plans[c] = nil
			for k := 0; k < 2; k++ {
				opn++
				plans[c] = append(plans[c], planned{opn, svcOp{Kind: "proc", Mid: "a", Msg: "m" + strconv.Itoa(opn)}})
			}
		}
		for _, k := range []string{"rem", "add2", "rem", "add"} {
			opn++
			plans[0] = append(plans[0], planned{opn, svcOp{Kind: k, Mid: "a", Msg: "m" + strconv.Itoa(opn)}})
		}
	}
	if rng.Intn(4) == 0 {
		// readers while one client moves both machines with every request
		opn++
		plans[0] = []planned{{opn, svcOp{Kind: "add", Mid: "a", Msg: "m" + strconv.Itoa(opn)}}}
		opn++
		plans[0] = append(plans[0], planned{opn, svcOp{Kind: "add", Mid: "b", Msg: "m" + strconv.Itoa(opn)}})
		for k := 0; k < 3; k++ {
			opn++
			plans[0] = append(plans[0], planned{opn, svcOp{Kind: "proc", Mid: "*", Msg: "m" + strconv.Itoa(opn)}})
		}
		for c := 1; c < nc; c++ {
			plans[c] = nil
			for k := 0; k < 4; k++ {
				opn++
				plans[c] = append(plans[c], planned{opn, svcOp{Kind: "read", Mid: "a", Msg: "m" + strconv.Itoa(opn)}})
			}
		}
	}
	for c := 0; c < nc; c++ {
		wg.Add(1)
		go func(c int) {
			defer wg.Done()
			for _, p := range plans[c] {
				doSvcOp(ctx, s, rec, p.i, p.op)
			}
		}(c)
	}
	wg.Wait()
	rec.add(snapService(ctx, s))
	raw, _ := json.Marshal(vO{"plans": fmt.Sprint(plans)})
	return vO{"id": id, "kind": "conc", "events": rec.events, "realised": true, "outcome": "returned", "raw": string(raw)}
}

// ---------------------------------------------------------------- routing and re-processing of emissions (C14, mcrew host)

// routeTok describes a routing target for the judge (see spec/Trace_McrewRoute.tla)
func routeTok(m map[string]interface{}) vT {
	x, have := m["to"]
	if !have {
		return vT{"none"}
	}
	switch vv := x.(type) {
	case string:
		return vT{"str", vv}
	case []interface{}:
		t := vT{"list"}
		for _, y := range vv {
			if s, is := y.(string); is {
				t = append(t, s)
			} else {
				t = append(t, "#nonstring")
			}
		}
		return t
	}
	return vT{"other"}
}

func describe(m map[string]interface{}) map[string]interface{} {
	// del: the message asks the timers service to delete a timer that does not exist - every delivery to the service is
	// answered with one "error for deleteTimer" on the Errors channel (that is how deliveries to the service are counted)
	_, del := m["deleteTimer"]
	return map[string]interface{}{"m": m["m"], "tok": routeTok(m), "del": del}
}

func describeAll(ms []interface{}) vT {
	out := vT{}
	for _, m := range ms {
		out = append(out, describe(m.(map[string]interface{})))
	}
	return out
}

// routeHistory: recorder machines a, b, c that emit fixed lists (a -> b, c; b -> c; acyclic) whenever they
// are presented a message.  Every Process invocation is observed at the process-locked hook.
func routeHistory(id int, rng *rand.Rand, dir string) vO {
	ctx, cancel := context.WithCancel(context.Background())
	defer cancel()
	s, err := newVerifService(ctx, dir)
	if err != nil {
		panic(err)
	}
	defer func() {
		if s.store.db != nil {
			s.store.db.Close()
		}
		os.Remove(filepath.Join(dir, "verif.db"))
	}()
	s.Errors = make(chan interface{}, 4096)
	var mu sync.Mutex
	processed := vT{}
	last := time.Now()
	setHook(func(point string, args ...interface{}) {
		if point == "process-locked" {
			mu.Lock()
			if m, is := args[0].(map[string]interface{}); is {
				processed = append(processed, fmt.Sprint(m["m"]))
			} else {
				processed = append(processed, fmt.Sprint(args[0]))
			}
			last = time.Now()
			mu.Unlock()
		}
	})
	defer setHook(nil)
	seq := 0
	mk := func(tos []string) []interface{} {
		out := []interface{}{}
		for i, n := 0, rng.Intn(4); i < n; i++ {
			seq++
			m := map[string]interface{}{"m": "e" + strconv.Itoa(seq)}
			switch to := tos[rng.Intn(len(tos))]; to {
			case "":
			case "#list":
				m["to"] = []interface{}{"c", "nobody", "c", float64(3)}
			case "#wslist": // a service (here: one that nobody listens to) named next to a machine
				m["to"] = []interface{}{"ws", "c"}
			case "#tlist": // a service named twice, next to a machine and things that are not ids
				m["to"] = []interface{}{"timers", "c", map[string]interface{}{"mid": "b"}, "timers", []interface{}{"a"}}
				m["deleteTimer"] = "nosuchtimer"
			default:
				m["to"] = to
			}
			out = append(out, m)
		}
		return out
	}
	emits := map[string][]interface{}{"a": mk([]string{"b", "c", "c", "nobody", "#list", "#wslist", "#tlist"}), "b": mk([]string{"c", "nobody", "#list", "#wslist", "#tlist"}), "c": {}}
	// The first history of every run is the burst scenario of the known finding F-C14-mcrew-emitted-dropped: the host's
	// Emitted channel holds 2 messages (mcrew's main.go gives it 8), one step emits 5, and the host reads the channel only
	// after processing has gone quiet.
	burst := id == 1
	if burst {
		s.Emitted = make(chan interface{}, 2)
		five := []interface{}{}
		for i := 0; i < 5; i++ {
			seq++
			five = append(five, map[string]interface{}{"m": "e" + strconv.Itoa(seq), "to": "nobody"})
		}
		emits = map[string][]interface{}{"a": five, "b": {}, "c": {}}
	}
	machines := vO{}
	for _, mid := range []string{"a", "b", "c"} {
		if burst && mid != "a" {
			continue
		}
		if mid != "a" && rng.Intn(4) == 0 {
			continue
		}
		if err := s.AddMachine(ctx, "counter", mid, "", match.Bindings{"emit": emits[mid]}); err != nil {
			panic(err)
		}
		machines[mid] = vO{"emit": describeAll(emits[mid])}
	}
	externals := vT{}
	for i, n := 0, 1+rng.Intn(2); i < n && !(burst && i > 0); i++ {
		seq++
		m := map[string]interface{}{"m": "x" + strconv.Itoa(seq)}
		switch k := rng.Intn(11); {
		case burst:
			m["to"] = "a"
		case k == 0: // broadcast
		case k == 1:
			m["to"] = float64(7) // not a machine id: broadcast
		case k == 2:
			m["to"] = "timers"
			m["deleteTimer"] = "nosuchtimer"
		case k == 3:
			m["to"] = "nobody"
		case k == 4:
			m["to"] = "*"
		case k == 5:
			m["to"] = []interface{}{"a", "c"}
		case k == 6:
			m["to"] = []interface{}{"b", "b", float64(7), "nobody", "a"}
		case k == 7:
			m["to"] = []interface{}{"ws", "a"}
		case k == 8:
			m["to"] = []interface{}{"timers", "timers", map[string]interface{}{"mid": "b"}, "a", "timers"}
			m["deleteTimer"] = "nosuchtimer"
		default:
			m["to"] = "a"
		}
		desc := describe(m)
		externals = append(externals, desc)
		// (a Process that does not come back within 3 s is left behind: the judge then misses the presentations)
		base := runtime.NumGoroutine()
		returned := make(chan bool, 1)
		go func() { s.Process(ctx, m, nil); returned <- true }()
		select {
		case <-returned:
		case <-time.After(3 * time.Second):
		}
		// wait until the asynchronous re-processing has gone quiet: nothing processed for a while AND the goroutines that
		// Process started for the emitted messages are gone (on a busy machine one of them may not have been scheduled yet
		// when the others have long finished); at most 3 s
		quietSince := time.Now()
		for waited := time.Now(); time.Since(waited) < 3*time.Second; {
			time.Sleep(15 * time.Millisecond)
			mu.Lock()
			idle := time.Since(last)
			mu.Unlock()
			if runtime.NumGoroutine() > base {
				quietSince = time.Now()
			}
			if idle > 60*time.Millisecond && time.Since(quietSince) > 30*time.Millisecond {
				break
			}
		}
	}
	logs := vO{}
	c := s.crew.Copy()
	for mid, m := range c.Machines {
		logs[mid] = logOf(m.State.Bs)
	}
	reported := vT{}
	for {
		select {
		case m := <-s.Emitted:
			if mm, is := m.(map[string]interface{}); is {
				reported = append(reported, fmt.Sprint(mm["m"]))
			}
			continue
		default:
		}
		break
	}
	mu.Lock()
	pr := processed
	mu.Unlock()
	timerErrors := 0
	for drained := false; !drained; {
		select {
		case e := <-s.Errors:
			if strings.Contains(fmt.Sprint(e), "error for deleteTimer") {
				timerErrors++
			}
		default:
			drained = true
		}
	}
	raw, _ := json.Marshal(vO{"machines": machines, "externals": externals})
	return vO{"id": id, "kind": "mcrew-route", "host": "mcrew", "machines": machines, "externals": externals, "processed": pr, "logs": logs, "reported": reported, "burst": burst, "emittedBuffer": cap(s.Emitted), "timerErrors": timerErrors, "raw": string(raw)}
}

// ---------------------------------------------------------------- entry point

func TestVerifDriver(t *testing.T) {
	mode := os.Getenv("VERIF_MODE")
	if mode == "" {
		t.Skip("verif driver: VERIF_MODE not set")
	}
	log.SetOutput(io.Discard)
	Verbose = false
	outPath := os.Getenv("VERIF_OUT_FILE")
	f, err := os.Create(outPath)
	if err != nil {
		t.Fatal(err)
	}
	defer f.Close()
	w := bufio.NewWriterSize(f, 1<<20)
	defer w.Flush()
	enc := json.NewEncoder(w)
	enc.SetEscapeHTML(false)
	dir, err := os.MkdirTemp("", "verif-mcrew")
	// (one directory per driver process: parallel drivers do not share a database file)
	if err != nil {
		t.Fatal(err)
	}
	defer os.RemoveAll(dir)
	seed, _ := strconv.Atoi(os.Getenv("VERIF_SEED"))
	n, _ := strconv.Atoi(os.Getenv("VERIF_N"))
	rng := rand.New(rand.NewSource(int64(seed)))
	switch mode {
	case "svc-sched":
		in, err := os.Open(os.Getenv("VERIF_IN"))
		if err != nil {
			t.Fatal(err)
		}
		sc := bufio.NewScanner(in)
		sc.Buffer(make([]byte, 1<<20), 1<<26)
		id := 0
		for sc.Scan() {
			var s schedule
			if err := json.Unmarshal(sc.Bytes(), &s); err != nil {
				t.Fatal(err)
			}
			id++
			enc.Encode(replaySchedule(id, &s, dir, 60*time.Millisecond))
		}
	case "svc-faults":
		for id := 1; id <= n; id++ {
			enc.Encode(faultHistory(id, rng, dir, nil))
		}
	case "svc-conc":
		for id := 1; id <= n; id++ {
			enc.Encode(concurrentHistory(id, rng, dir))
		}
	case "svc-route":
		for id := 1; id <= n; id++ {
			enc.Encode(routeHistory(id, rng, dir))
		}
	case "timers":
		timersMain(t, enc, rng, n)
	default:
		t.Fatalf("unknown VERIF_MODE %s", mode)
	}
}

var _ = sort.Strings
var _ = core.DefaultControl
