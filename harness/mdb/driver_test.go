//go:build verif

// Overlay driver for cmd/mdb (package main): routing of Host.Process (C14).  Added to the
// package with `go test -overlay`; records which machines were presented each message.
package main

import (
	"bufio"
	"context"
	"encoding/json"
	"fmt"
	"io"
	"log"
	"math/rand"
	"os"
	"strconv"
	"testing"

	"github.com/Comcast/sheens/core"
	"github.com/Comcast/sheens/crew"
	"github.com/Comcast/sheens/match"
)

func verifRecorder(h *Host) *core.Spec {
	s := &core.Spec{Name: "rec", Nodes: map[string]*core.Node{
		"start": {Branches: &core.Branches{Type: "message", Branches: []*core.Branch{{Pattern: map[string]interface{}{"m": "?m"}, Target: "rec"}}}},
		"rec": {ActionSource: &core.ActionSource{Interpreter: "ecmascript", Source: `var bs = _.bindings; bs.log = (bs.log || []).concat([bs["?m"]]); delete bs["?m"]; return bs;`},
			Branches: &core.Branches{Type: "bindings", Branches: []*core.Branch{{Target: "start"}}}}}}
	if err := s.Compile(context.Background(), h.interpreters, true); err != nil {
		panic(err)
	}
	return s
}

func mdbTok(m map[string]interface{}) []interface{} {
	x, have := m["to"]
	if !have {
		return []interface{}{"none"}
	}
	switch vv := x.(type) {
	case string:
		return []interface{}{"str", vv}
	case []interface{}:
		t := []interface{}{"list"}
		for _, y := range vv {
			if s, is := y.(string); is {
				t = append(t, s)
			} else {
				t = append(t, "#nonstring")
			}
		}
		return t
	}
	return []interface{}{"other"}
}

func TestVerifDriver(t *testing.T) {
	if os.Getenv("VERIF_MODE") != "mdb-route" {
		t.Skip("verif driver: VERIF_MODE not set")
	}
	log.SetOutput(io.Discard)
	f, err := os.Create(os.Getenv("VERIF_OUT_FILE"))
	if err != nil {
		t.Fatal(err)
	}
	defer f.Close()
	w := bufio.NewWriter(f)
	defer w.Flush()
	enc := json.NewEncoder(w)
	seed, _ := strconv.Atoi(os.Getenv("VERIF_SEED"))
	n, _ := strconv.Atoi(os.Getenv("VERIF_N"))
	rng := rand.New(rand.NewSource(int64(seed)))
	ctx := context.Background()
	for id := 1; id <= n; id++ {
		h, err := NewHost("", "")
		if err != nil {
			t.Fatal(err)
		}
		spec := verifRecorder(h)
		machines := map[string]interface{}{}
		for _, mid := range []string{"a", "b", "c", "timers"} {
			if mid != "a" && rng.Intn(3) == 0 {
				continue
			}
			h.crew.Machines[mid] = &crew.Machine{Id: mid, Specter: spec, State: &core.State{NodeName: "start", Bs: match.Bindings{}}}
			machines[mid] = map[string]interface{}{"emit": []interface{}{}}
		}
		externals := []interface{}{}
		processed := []interface{}{}
		seq := 0
		for i, k := 0, 1+rng.Intn(4); i < k; i++ {
			seq++
			m := map[string]interface{}{"m": "x" + strconv.Itoa(seq)}
			switch rng.Intn(9) {
			case 0:
			case 1:
				m["to"] = float64(7)
			case 2:
				m["to"] = "nobody"
			case 3:
				m["to"] = "timers"
			case 4:
				m["to"] = "*"
			case 5:
				m["to"] = []interface{}{"a", "c"}
			default:
				m["to"] = []string{"a", "b", "c"}[rng.Intn(3)]
			}
			desc := map[string]interface{}{"m": m["m"], "tok": mdbTok(m)}
			externals = append(externals, desc)
			func() {
				defer func() {
					if r := recover(); r != nil {
						processed = append(processed, "panic")
					}
				}()
				h.Process(ctx, m, nil)
				processed = append(processed, fmt.Sprint(m["m"]))
			}()
		}
		logs := map[string]interface{}{}
		for mid, m := range h.crew.Machines {
			l := []interface{}{}
			if xs, is := m.State.Bs["log"].([]interface{}); is {
				for _, x := range xs {
					l = append(l, fmt.Sprint(x))
				}
			}
			logs[mid] = l
		}
		raw, _ := json.Marshal(map[string]interface{}{"machines": machines, "externals": externals})
		enc.Encode(map[string]interface{}{"id": id, "kind": "mdb-route", "host": "mdb", "machines": machines, "externals": externals,
			"processed": processed, "logs": logs, "reported": []interface{}{}, "raw": string(raw)})
	}
}
