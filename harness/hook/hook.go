// Package hook installs the repository's verif hook (sio.VerifHook) once and lets harnesses swap what it forwards to.
//
// The repository's hook variable is read by crew and timer goroutines without synchronisation, and goroutines of a
// finished run may still be running when the next one begins: the variable is therefore written once, before any such
// goroutine exists, with a dispatcher that forwards to an atomic value.
package hook

import (
	"sync"
	"sync/atomic"

	"github.com/Comcast/sheens/sio"
)

type Fn func(point string, args ...interface{})

var (
	once    sync.Once
	current atomic.Value // Fn
)

// Set makes f the function the hook forwards to (nil: nothing).
func Set(f Fn) {
	once.Do(func() {
		current.Store(Fn(nil))
		sio.VerifHook = func(point string, args ...interface{}) {
			if h, _ := current.Load().(Fn); h != nil {
				h(point, args...)
			}
		}
	})
	current.Store(f)
}
