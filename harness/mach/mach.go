// Package mach builds real core.Spec values from abstract specifications written
// in the small action language of spec/Actions.tla, renders their actions as
// ECMAScript source or as native Go actions, and encodes specs, states and results
// in the tagged encoding the TLA+ judges read.  It contains no property logic.
package mach

import (
	"context"
	"encoding/json"
	"errors"
	"fmt"
	"reflect"
	"sort"
	"strings"
	"time"

	"verifharness/enc"

	"github.com/Comcast/sheens/core"
	"github.com/Comcast/sheens/interpreters/ecmascript"
	"github.com/Comcast/sheens/match"
)

type T = enc.T
type O = enc.O

// Op is one operation of the action language.
type Op struct {
	Name string
	K    string      // binding name (set, setfrom, del, emitb)
	K2   string      // source binding (setfrom)
	V    interface{} // raw JSON value (emit, set) or object (fresh)
}

// ANode / ABranch / ASpec: an abstract specification.
type ABranch struct {
	HasPat bool
	Pat    interface{} // raw pattern
	Guard  []Op        // nil: no guard
	Target string      // "name" or "@var"
}
type ANode struct {
	Act      []Op   // nil: no action
	Native   bool   // render action and guards as native Go actions
	Partial  bool   // native only: on failure return a partial execution together with the error
	InPlace  bool   // native only: the action works on the bindings map it is given (as the repository's own native test actions do) and returns that map
	BType    string // "", "message", "bindings"; "" with NoBranching => no branching at all
	NoBr     bool
	Branches []ABranch
}
type ASpec struct {
	Nodes map[string]*ANode
	AEB   bool
	AEN   string
	EN    string // the spec's error node ("": the node called "error")
}

// ---------------------------------------------------------------- rendering: ECMAScript

func js(x interface{}) string {
	b, err := json.Marshal(x)
	if err != nil {
		panic(err)
	}
	return string(b)
}

// JS renders an op-list as ECMAScript source.
func JS(ops []Op) string {
	var b strings.Builder
	for _, o := range ops {
		switch o.Name {
		case "emit":
			fmt.Fprintf(&b, "_.out(%s);\n", js(o.V))
		case "emitb":
			fmt.Fprintf(&b, "_.out(_.bindings[%s]);\n", js(o.K))
		case "set":
			fmt.Fprintf(&b, "_.bindings[%s] = %s;\n", js(o.K), js(o.V))
		case "setfrom":
			// (a copy, as in the model and in the native rendering: the two bindings must not share one object)
			fmt.Fprintf(&b, "if (%s in _.bindings) { _.bindings[%s] = JSON.parse(JSON.stringify(_.bindings[%s])); }\n", js(o.K2), js(o.K), js(o.K2))
		case "del":
			fmt.Fprintf(&b, "delete _.bindings[%s];\n", js(o.K))
		case "mutnested":
			fmt.Fprintf(&b, "(function(o) { if (o && typeof o === 'object') { if (o.length !== undefined) { if (o.length > 0) { o[0] = 'mut'; } } else { o.mut = 1; } } })(_.bindings[%s]);\n", js(o.K))
		case "delall":
			b.WriteString("for (var k__ in _.bindings) { delete _.bindings[k__]; }\n")
		case "mutprops":
			// overwrite every scalar reachable from the properties with a string (a value every container type takes)
			b.WriteString("(function(p) { function m(o) { if (o && typeof o === 'object') { if (o.length !== undefined) { for (var i = 0; i < o.length; i++) { if (o[i] && typeof o[i] === 'object') { m(o[i]); } else { o[i] = 'mut'; } } } else { for (var k in o) { if (o[k] && typeof o[k] === 'object') { m(o[k]); } else if (k !== 'ctx') { o[k] = 'mut'; } } } } } m(p); })(_.props);\n")
		case "matchstore":
			fmt.Fprintf(&b, "_.bindings[%s] = _.match({\"a\": \"?v\"}, {\"a\": 1, \"b\": 2}, {})[0];\n", js(o.K))
		case "propcount":
			// (one count per execution, however often the op occurs in it: pc__ is a local of the script)
			fmt.Fprintf(&b, "if (typeof pc__ === 'undefined') { var pc__ = (_.props.visits__ || 0) + 1; _.props.visits__ = pc__; } _.bindings[%s] = pc__;\n", js(o.K))
		case "fresh":
			fmt.Fprintf(&b, "return %s;\n", js(o.V))
		case "retnull":
			b.WriteString("return null;\n")
		case "retundef":
			// the script ends without saying anything about the bindings (undefined): no bindings, as with null
			b.WriteString("return;\n")
		case "nullif":
			fmt.Fprintf(&b, "if (%s in _.bindings && _.bindings[%s] === %s) { return null; }\n", js(o.K), js(o.K), js(o.V))
		case "throw":
			b.WriteString("throw 'boom';\n")
		case "loop":
			b.WriteString("for (;;) { }\n")
		case "retscalar":
			b.WriteString("return 42;\n")
		case "emitbad":
			b.WriteString("_.out(function(){ return 1; });\n")
		case "retgetter":
			b.WriteString("return {get x() { throw new Error('boom'); }};\n")
		case "throwobj":
			b.WriteString("throw {toString: function() { throw new Error('boom'); }};\n")
		case "retcyclic":
			b.WriteString("var cyc__ = []; cyc__.push(cyc__); return cyc__;\n")
		case "retcyclicobj":
			// bindings that contain themselves: every recursive reader of the state (the matcher, the JSON encoder) would
			// never come back
			b.WriteString("var c__ = {}; c__.self = c__; _.bindings[\"?x\"] = c__; _.bindings[\"k\"] = c__; return _.bindings;\n")
		case "matchdeep":
			// (extended interpreter) the matcher is handed a value nested 150,000 deep (the drivers run with a 64 MB stack limit, see stepdrv): every recursive reader of it
			// (the JSON encoder first) would exhaust the stack, which ends the process
			b.WriteString("var d__ = []; for (var i__ = 0; i__ < 150000; i__++) { d__ = [d__]; } _.match(d__, {}, {});\n")
		case "retdeepshared":
			// one nested value used twice in what is returned, the second time deep inside: with mach.MaxDepth (60) as the
			// interpreter's limit the first use is within the limit and the second is not
			b.WriteString("function nest__(x, n) { for (var i = 0; i < n; i++) { x = [x]; } return x; } var seg__ = nest__(1, 40); _.bindings[\"k\"] = [seg__, nest__(seg__, 40)]; return _.bindings;\n")
		case "retgetterbad":
			// a returned object whose getter throws a value that cannot be rendered (its toString throws it again)
			b.WriteString("var bad__ = {toString: function() { throw bad__; }}; var r__ = {}; Object.defineProperty(r__, \"x\", {enumerable: true, get: function() { throw bad__; }}); return r__;\n")
		case "retnan":
			// a number that is not JSON (the state could not be written out)
			b.WriteString("_.bindings[\"k\"] = [1, {\"x\": 0 / 0}]; return _.bindings;\n")
		default:
			panic("unknown op " + o.Name)
		}
	}
	b.WriteString("return _.bindings;\n")
	return b.String()
}

// ---------------------------------------------------------------- rendering: native

var errBoom = errors.New("boom (native)")

// Native renders an op-list as a Go action function.
func Native(ops []Op, partial, inplace bool) func(context.Context, match.Bindings, core.StepProps) (*core.Execution, error) {
	return func(ctx context.Context, bs match.Bindings, props core.StepProps) (*core.Execution, error) {
		if len(ops) == 0 && bs != nil {
			// an action with nothing to change returns the bindings it was given (as interpreters/noop does)
			return core.NewExecution(bs), nil
		}
		cur := match.Bindings{}
		if inplace && bs != nil {
			cur = bs
		} else {
			for k, v := range bs {
				cur[k] = enc.DeepCopy(v)
			}
		}
		exe := core.NewExecution(nil)
		fail := func(err error) (*core.Execution, error) {
			if partial {
				if inplace {
					// (worked on the given map, hands back a copy of what it made of it)
					exe.Bs = cur.Copy()
					return exe, err
				}
				if len(ops)%2 == 1 {
					// (an Execution that was not made with NewExecution: it is an exported struct)
					return &core.Execution{Bs: cur}, err
				}
				exe.Bs = cur
				return exe, err
			}
			return nil, err
		}
		for _, o := range ops {
			switch o.Name {
			case "emit":
				exe.AddEmitted(enc.DeepCopy(o.V))
			case "emitb":
				exe.AddEmitted(enc.DeepCopy(cur[o.K]))
			case "set":
				cur[o.K] = enc.DeepCopy(o.V)
			case "setfrom":
				if v, have := cur[o.K2]; have {
					cur[o.K] = enc.DeepCopy(v)
				}
			case "del":
				delete(cur, o.K)
			case "mutnested":
				switch vv := cur[o.K].(type) {
				case []interface{}:
					if len(vv) > 0 {
						vv[0] = "mut"
					}
				case map[string]interface{}:
					vv["mut"] = float64(1)
				}
			case "delall":
				cur = match.Bindings{}
			case "propcount":
				cur[o.K] = float64(1)
			case "matchstore":
				cur[o.K] = map[string]interface{}{"?v": float64(1)}
			case "fresh":
				exe.Bs = match.Bindings(enc.DeepCopy(o.V).(map[string]interface{}))
				return exe, nil
			case "retnull", "retundef":
				exe.Bs = nil
				return exe, nil
			case "nullif":
				if v, have := cur[o.K]; have && reflect.DeepEqual(v, o.V) {
					exe.Bs = nil
					return exe, nil
				}
			case "throw", "emitbad", "retgetter", "throwobj", "retgetterbad":
				return fail(errBoom)
			case "retscalar", "retcyclic", "retcyclicobj", "retnan", "matchdeep", "retdeepshared":
				return fail(errors.New("42 (int64) isn't Bindings (native)"))
			case "loop":
				select {
				case <-ctx.Done():
				case <-time.After(3 * time.Second):
				}
				return fail(errors.New("RuntimeError: timeout (native)"))
			}
		}
		if len(exe.Emitted) == 0 && len(ops)%2 == 0 {
			// (every other native action that emits nothing returns an Execution it did not make with NewExecution:
			// Execution is an exported struct)
			return &core.Execution{Bs: cur}, nil
		}
		exe.Bs = cur
		return exe, nil
	}
}

// ---------------------------------------------------------------- building the real spec

func actionSource(ops []Op) *core.ActionSource {
	for _, o := range ops {
		if o.Name == "matchdeep" || o.Name == "matchstore" {
			return &core.ActionSource{Interpreter: "ecmascript-ext", Source: JS(ops)}
		}
	}
	return &core.ActionSource{Interpreter: "ecmascript", Source: JS(ops)}
}

// MaxDepth is what the drivers set the interpreter's limit on the nesting of returned and emitted values to (the values of
// the action language are a handful of levels deep; the retdeepshared op needs a limit it can reach cheaply)
const MaxDepth = 60

func init() {
	ecmascript.MaxDepth = MaxDepth
	// the extended interpreter (_.match and friends), as interpreters.Standard registers it
	ext := ecmascript.NewInterpreter()
	ext.Extended = true
	core.DefaultInterpreters["ecmascript-ext"] = ext
}

// Build makes an uncompiled core.Spec.
func Build(a *ASpec) *core.Spec {
	s := &core.Spec{Name: "verif", Nodes: map[string]*core.Node{}, ActionErrorBranches: a.AEB, ActionErrorNode: a.AEN, ErrorNode: a.EN}
	for name, an := range a.Nodes {
		n := &core.Node{}
		if an.Act != nil {
			if an.Native {
				n.Action = &core.FuncAction{F: Native(an.Act, an.Partial, an.InPlace)}
			} else {
				n.ActionSource = actionSource(an.Act)
			}
		}
		if !an.NoBr {
			n.Branches = &core.Branches{Type: an.BType}
			for _, ab := range an.Branches {
				b := &core.Branch{Target: ab.Target}
				if ab.HasPat {
					b.Pattern = enc.DeepCopy(ab.Pat)
				}
				if ab.Guard != nil {
					if an.Native {
						b.Guard = &core.FuncAction{F: Native(ab.Guard, false, an.InPlace)}
					} else {
						b.GuardSource = actionSource(ab.Guard)
					}
				}
				n.Branches.Branches = append(n.Branches.Branches, b)
			}
		}
		s.Nodes[name] = n
	}
	return s
}

// Compile builds and compiles.
func Compile(a *ASpec) (*core.Spec, error) {
	s := Build(a)
	if err := s.Compile(context.Background(), nil, true); err != nil {
		return nil, err
	}
	return s, nil
}

// ---------------------------------------------------------------- encoding

func EncOps(ops []Op) interface{} {
	if ops == nil {
		return T{"none"}
	}
	a := T{}
	for _, o := range ops {
		switch o.Name {
		case "emit":
			a = append(a, T{"emit", enc.V(o.V)})
		case "emitb":
			a = append(a, T{"emitb", o.K})
		case "set":
			a = append(a, T{"set", o.K, enc.V(o.V)})
		case "nullif":
			a = append(a, T{"nullif", o.K, enc.V(o.V)})
		case "setfrom":
			a = append(a, T{"setfrom", o.K, o.K2})
		case "del", "mutnested", "propcount", "matchstore":
			a = append(a, T{o.Name, o.K})
		case "fresh":
			a = append(a, T{"fresh", enc.Bs(match.Bindings(o.V.(map[string]interface{})))})
		default:
			a = append(a, T{o.Name})
		}
	}
	return T{"ops", a}
}

func encTarget(t string) interface{} {
	if strings.HasPrefix(t, "@") {
		return T{"ref", t[1:], t}
	}
	return T{"lit", t}
}

func EncNode(an *ANode) interface{} {
	bt := an.BType
	if an.NoBr {
		bt = "none"
	} else if bt == "" {
		bt = "bindings"
	}
	brs := T{}
	if !an.NoBr {
		for _, b := range an.Branches {
			pat := interface{}(T{"nopat"})
			if b.HasPat && b.Pat != nil {
				pat = enc.P(b.Pat)
			}
			brs = append(brs, O{"pat": pat, "guard": EncOps(b.Guard), "target": encTarget(b.Target)})
		}
	}
	return O{"act": EncOps(an.Act), "native": an.Native, "partial": an.Native && an.Partial && (an.InPlace || len(an.Act)%2 == 0) /* whether the failing execution carries events: see Native */, "btype": bt, "branches": brs}
}

// EncSpec encodes the abstract spec as compiled (Compile adds an empty "error" node).
func EncSpec(a *ASpec) interface{} {
	nodes := O{}
	for name, an := range a.Nodes {
		nodes[name] = EncNode(an)
	}
	en := a.EN
	if en == "" {
		en = "error"
	}
	if _, have := nodes[en]; !have {
		nodes[en] = EncNode(&ANode{NoBr: true})
	}
	return O{"nodes": nodes, "aeb": a.AEB, "aen": a.AEN, "en": a.EN}
}

func EncState(st *core.State) interface{} {
	if st == nil {
		return T{"none"}
	}
	return T{"st", st.NodeName, enc.Bs(st.Bs)}
}

func EncMsgs(xs []interface{}) interface{} {
	a := T{}
	for _, x := range xs {
		a = append(a, enc.V(x))
	}
	return a
}

// DecOps decodes an encoded op-list (["none"] | ["ops", [...]]) as exported by TLC.
func DecOps(x interface{}) []Op {
	t, ok := x.([]interface{})
	if !ok || len(t) < 2 || t[0] != "ops" {
		return nil
	}
	ops := []Op{}
	list, _ := t[1].([]interface{})
	for _, y := range list {
		o := y.([]interface{})
		op := Op{Name: o[0].(string)}
		switch op.Name {
		case "emit":
			op.V = enc.D(o[1])
		case "emitb", "del", "mutnested", "propcount", "matchstore":
			op.K = o[1].(string)
		case "set", "nullif":
			op.K, op.V = o[1].(string), enc.D(o[2])
		case "setfrom":
			op.K, op.K2 = o[1].(string), o[2].(string)
		case "fresh":
			op.V = map[string]interface{}(enc.DBs(o[1]))
		}
		ops = append(ops, op)
	}
	return ops
}

// DecNode decodes an encoded node shape as exported by TLC.
func DecNode(x map[string]interface{}) *ANode {
	n := &ANode{Act: DecOps(x["act"])}
	n.Native, _ = x["native"].(bool)
	n.Partial, _ = x["partial"].(bool)
	switch x["btype"] {
	case "none":
		n.NoBr = true
	default:
		n.BType = x["btype"].(string)
	}
	brs, _ := x["branches"].([]interface{})
	for _, y := range brs {
		b := y.(map[string]interface{})
		ab := ABranch{}
		if p, is := b["pat"].([]interface{}); is && p[0] != "nopat" {
			ab.HasPat, ab.Pat = true, enc.D(p)
		}
		ab.Guard = DecOps(b["guard"])
		t := b["target"].([]interface{})
		if t[0] == "ref" {
			ab.Target = t[2].(string)
		} else {
			ab.Target = t[1].(string)
		}
		n.Branches = append(n.Branches, ab)
	}
	return n
}

// PermNames collects every name ending in '!' that the case mentions.
func PermNames(a *ASpec, bss ...match.Bindings) []string {
	set := map[string]bool{}
	add := func(k string) {
		if strings.HasSuffix(k, "!") {
			set[k] = true
		}
	}
	ops := func(os []Op) {
		for _, o := range os {
			add(o.K)
			add(o.K2)
			if m, is := o.V.(map[string]interface{}); is && o.Name == "fresh" {
				for k := range m {
					add(k)
				}
			}
		}
	}
	for _, n := range a.Nodes {
		ops(n.Act)
		for _, b := range n.Branches {
			ops(b.Guard)
		}
	}
	for _, bs := range bss {
		for k := range bs {
			add(k)
		}
	}
	out := []string{}
	for k := range set {
		out = append(out, k)
	}
	sort.Strings(out)
	return out
}

// Classify maps an error to a class by a fixed table (error texts are not predictable).
func Classify(err error) string {
	if err == nil {
		return ""
	}
	s := err.Error()
	switch {
	case strings.Contains(s, "boom"):
		return "thrown"
	case strings.Contains(s, "timeout"):
		return "timeout"
	case strings.Contains(s, "isn't Bindings"), strings.Contains(s, "value is cyclic"), strings.Contains(s, "nested too deeply"), strings.Contains(s, "not finite"):
		return "badreturn"
	case strings.Contains(s, "too many bindingss"):
		return "toomany"
	case strings.Contains(s, "not found in spec"):
		return "unknownnode"
	case strings.Contains(s, "uncompiled action"):
		return "uncompiled"
	case strings.Contains(s, "not compiled"):
		return "notcompiled"
	case strings.Contains(s, `has "message" branching and an action`):
		return "badbranching"
	case strings.Contains(s, "not supported"), strings.Contains(s, "can't have a variable as a key"), strings.Contains(s, "unknown pattern type"):
		return "matcherr"
	case strings.Contains(s, "json: unsupported type"), strings.Contains(s, "script error"):
		return "thrown"
	}
	return "other:" + s
}

// HasLoop reports whether any op-list of the spec contains the loop op.
func HasLoop(a *ASpec) bool {
	f := func(os []Op) bool {
		for _, o := range os {
			if o.Name == "loop" {
				return true
			}
		}
		return false
	}
	for _, n := range a.Nodes {
		if f(n.Act) {
			return true
		}
		for _, b := range n.Branches {
			if f(b.Guard) {
				return true
			}
		}
	}
	return false
}

// SpecSnapshot is a canonical text of everything of a spec that the engine could modify.
func SpecSnapshot(s *core.Spec) string {
	type br struct {
		Pattern interface{}
		Target  string
		Guard   bool
		Src     interface{}
	}
	type nd struct {
		Action bool
		Src    interface{}
		Type   string
		Modes  []string
		Brs    []br
		NoBr   bool
	}
	m := map[string]nd{}
	for name, n := range s.Nodes {
		if n == nil {
			continue
		}
		x := nd{Action: n.Action != nil}
		if n.ActionSource != nil {
			x.Src = n.ActionSource.Source
		}
		if n.Branches == nil {
			x.NoBr = true
		} else {
			x.Type = n.Branches.Type
			x.Modes = n.Branches.Modes
			for _, b := range n.Branches.Branches {
				y := br{Pattern: b.Pattern, Target: b.Target, Guard: b.Guard != nil}
				if b.GuardSource != nil {
					y.Src = b.GuardSource.Source
				}
				x.Brs = append(x.Brs, y)
			}
		}
		m[name] = x
	}
	return enc.Canon(map[string]interface{}{"nodes": m, "aeb": s.ActionErrorBranches, "aen": s.ActionErrorNode, "errorNode": s.ErrorNode,
		"name": s.Name, "ps": s.PatternSyntax})
}
