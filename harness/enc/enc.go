// Package enc implements the tagged encoding shared by the TLA+ specifications
// and the Go drivers (DESIGN.md section 5).
//
//	["null"] ["bool","t"|"f"] ["num",k] ["str",s] ["arr",[v,...]] ["obj",{key:v,...}]
//
// k counts halves (["num",3] is 1.5).  Pattern strings beginning with '?' become
// variable tokens ["var",kind,full,plain,op]; a map whose sole key is a variable
// becomes ["pobj",keyVar,valuePattern].
package enc

import (
	"encoding/json"
	"fmt"
	"math"
	"sort"
	"strings"

	"github.com/Comcast/sheens/match"
)

// T is a JSON array.
type T = []interface{}

// O is a JSON object.
type O = map[string]interface{}

// Num encodes a number as a count of halves.  Values that are not
// multiples of 0.5 are marked so that a judge never treats them as equal
// to something else by accident.
func Num(f float64) interface{} {
	k := f * 2
	if k != math.Trunc(k) || math.Abs(k) > 1e9 {
		return T{"numx", fmt.Sprintf("%g", f)}
	}
	return T{"num", int(k)}
}

// V encodes a Go JSON-like value.
func V(x interface{}) interface{} {
	switch vv := x.(type) {
	case nil:
		return T{"null"}
	case bool:
		if vv {
			return T{"bool", "t"}
		}
		return T{"bool", "f"}
	case float64:
		return Num(vv)
	case float32:
		return Num(float64(vv))
	case int:
		return Num(float64(vv))
	case int64:
		return Num(float64(vv))
	case int32:
		return Num(float64(vv))
	case json.Number:
		f, _ := vv.Float64()
		return Num(f)
	case string:
		return T{"str", vv}
	case []interface{}:
		a := T{}
		for _, v := range vv {
			a = append(a, V(v))
		}
		return T{"arr", a}
	case map[string]interface{}:
		m := O{}
		for k, v := range vv {
			m[k] = V(v)
		}
		return T{"obj", m}
	case match.Bindings:
		return V(map[string]interface{}(vv))
	case []match.Bindings:
		a := T{}
		for _, v := range vv {
			a = append(a, V(v))
		}
		return T{"arr", a}
	case []string:
		a := T{}
		for _, v := range vv {
			a = append(a, V(v))
		}
		return T{"arr", a}
	case map[string]string:
		m := O{}
		for k, v := range vv {
			m[k] = V(v)
		}
		return T{"obj", m}
	}
	return T{"other", fmt.Sprintf("%T", x)}
}

// Bs encodes bindings as a JSON object of encoded values (a TLA+ function).
func Bs(bs match.Bindings) interface{} {
	if bs == nil {
		return O{}
	}
	m := O{}
	for k, v := range bs {
		m[k] = V(v)
	}
	return m
}

// Bss encodes a list of bindings.
func Bss(bss []match.Bindings) interface{} {
	a := T{}
	for _, bs := range bss {
		a = append(a, Bs(bs))
	}
	return a
}

var ineqOps = []string{"<=", ">=", "!=", ">", "<"}

// VarTok classifies a '?'-string following the documented syntax.
func VarTok(s string) interface{} {
	kind, plain, op := "plain", s, ""
	switch {
	case s == "?":
		kind = "anon"
	case strings.HasPrefix(s, "??"):
		kind = "opt"
	case len(s) > 2:
		rest := s[1:]
		for _, ie := range ineqOps {
			if strings.HasPrefix(rest, ie) {
				kind, op, plain = "ineq", ie, "?"+rest[len(ie):]
				break
			}
		}
	}
	return T{"var", kind, s, plain, op}
}

// IsVar reports whether s is written as a pattern variable.
func IsVar(s string) bool { return strings.HasPrefix(s, "?") }

// P encodes a pattern.
func P(x interface{}) interface{} {
	switch vv := x.(type) {
	case string:
		if IsVar(vv) {
			return VarTok(vv)
		}
	case []interface{}:
		a := T{}
		for _, v := range vv {
			a = append(a, P(v))
		}
		return T{"arr", a}
	case map[string]interface{}:
		if len(vv) == 1 {
			for k, v := range vv {
				if IsVar(k) {
					return T{"pobj", VarTok(k), P(v)}
				}
			}
		}
		m := O{}
		tag := "obj"
		for k, v := range vv {
			if IsVar(k) {
				tag = "badobj" // a variable key next to other keys: outside the fragment
			}
			m[k] = P(v)
		}
		return T{tag, m}
	}
	return V(x)
}

// D decodes a tagged value (value or pattern) back into Go data as the
// real code expects it (float64 numbers, map[string]interface{}, ...).
func D(x interface{}) interface{} {
	t, ok := x.([]interface{})
	if !ok || len(t) == 0 {
		panic(fmt.Sprintf("enc.D: not tagged: %#v", x))
	}
	switch t[0] {
	case "null":
		return nil
	case "bool":
		return t[1] == "t"
	case "num":
		return toF(t[1]) / 2
	case "str":
		return t[1].(string)
	case "arr":
		a := []interface{}{}
		for _, v := range t[1].([]interface{}) {
			a = append(a, D(v))
		}
		return a
	case "obj", "badobj":
		m := map[string]interface{}{}
		switch o := t[1].(type) {
		case map[string]interface{}:
			for k, v := range o {
				m[k] = D(v)
			}
		case []interface{}: // TLC serialises the empty function as []
		}
		return m
	case "var":
		return t[2].(string)
	case "pobj":
		return map[string]interface{}{D(t[1]).(string): D(t[2])}
	}
	panic(fmt.Sprintf("enc.D: unknown tag %v", t[0]))
}

// DBs decodes a bindings object.
func DBs(x interface{}) match.Bindings {
	bs := match.Bindings{}
	switch o := x.(type) {
	case map[string]interface{}:
		for k, v := range o {
			bs[k] = D(v)
		}
	}
	return bs
}

func toF(x interface{}) float64 {
	switch vv := x.(type) {
	case float64:
		return vv
	case int:
		return float64(vv)
	case json.Number:
		f, _ := vv.Float64()
		return f
	}
	panic(fmt.Sprintf("enc: not a number: %#v", x))
}

// Canon gives a canonical string for any encoded or raw JSON value
// (encoding/json sorts map keys).
func Canon(x interface{}) string {
	js, err := json.Marshal(x)
	if err != nil {
		return "!" + err.Error()
	}
	return string(js)
}

// SortedKeys returns the keys of m in sorted order.
func SortedKeys(m map[string]interface{}) []string {
	ks := make([]string, 0, len(m))
	for k := range m {
		ks = append(ks, k)
	}
	sort.Strings(ks)
	return ks
}

// DeepCopy copies JSON-like data (maps, slices, scalars), keeping the
// dynamic Go types of scalars.
func DeepCopy(x interface{}) interface{} {
	switch vv := x.(type) {
	case map[string]interface{}:
		m := make(map[string]interface{}, len(vv))
		for k, v := range vv {
			m[k] = DeepCopy(v)
		}
		return m
	case match.Bindings:
		m := make(match.Bindings, len(vv))
		for k, v := range vv {
			m[k] = DeepCopy(v)
		}
		return m
	case []interface{}:
		a := make([]interface{}, len(vv))
		for i, v := range vv {
			a[i] = DeepCopy(v)
		}
		return a
	case []string: // typed containers, as a Go host might build them, are copied as such
		return append([]string{}, vv...)
	case map[string]string:
		m := make(map[string]string, len(vv))
		for k, v := range vv {
			m[k] = v
		}
		return m
	}
	return x
}
