module verifharness

go 1.20

require github.com/Comcast/sheens v0.0.0

replace github.com/Comcast/sheens => /repo
