module verifharness

go 1.20

require (
	github.com/Comcast/sheens v0.0.0
	github.com/jsccast/yaml v0.0.0-20171213031114-31aa0bbd42f2
)

require (
	github.com/dlclark/regexp2 v1.7.0 // indirect
	github.com/dop251/goja v0.0.0-20240220182346-e401ed450204 // indirect
	github.com/go-sourcemap/sourcemap v2.1.3+incompatible // indirect
	github.com/google/pprof v0.0.0-20230207041349-798e818bf904 // indirect
	github.com/gorhill/cronexpr v0.0.0-20180427100037-88b0669f7d75 // indirect
	github.com/russross/blackfriday/v2 v2.1.0 // indirect
	golang.org/x/text v0.13.0 // indirect
	gopkg.in/yaml.v2 v2.4.0 // indirect
)

replace github.com/Comcast/sheens => /repo
