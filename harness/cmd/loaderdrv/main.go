// loaderdrv renders one abstract specification in every supported representation, loads
// it the way the hosts do, compiles (once, twice, forced, serialised-and-reloaded), walks
// the same message sequences over each variant and records behaviours and Compile errors
// (C13; also the document-loading half of C07).  TLC judges (spec/Trace_Loader.tla).
//
//	loaderdrv gen <n> <seed> <out.ndjson>
package main

import (
	"bufio"
	"bytes"
	"context"
	"encoding/json"
	"fmt"
	"io"
	"log"
	"math/rand"
	"os"
	"os/exec"
	"path/filepath"
	"sort"
	"strconv"
	"strings"
	"time"

	"verifharness/enc"
	"verifharness/mach"

	"github.com/Comcast/sheens/core"
	"github.com/Comcast/sheens/crew"
	_ "github.com/Comcast/sheens/interpreters/ecmascript"
	"github.com/Comcast/sheens/match"
	"github.com/Comcast/sheens/sio"
	jyaml "github.com/jsccast/yaml"
)

type O = enc.O
type T = enc.T

var rng *rand.Rand

func p(x float64) bool { return rng.Float64() < x }

var patterns = []interface{}{
	map[string]interface{}{"k": "?x"}, map[string]interface{}{"k": float64(1)}, map[string]interface{}{"k": 1.5},
	"?any", "abc", "1", float64(1), true, nil,
	[]interface{}{float64(1), "?e"}, []interface{}{"a"}, map[string]interface{}{"xs": []interface{}{map[string]interface{}{"k": "?x"}}},
	map[string]interface{}{"k": map[string]interface{}{"j": "?y"}}, map[string]interface{}{"s": "text"}, map[string]interface{}{},
}
var msgs = []interface{}{
	map[string]interface{}{"k": float64(1)}, map[string]interface{}{"k": 1.5}, "abc", "1", float64(1), true,
	[]interface{}{float64(1), float64(2)}, []interface{}{"a", "b"}, map[string]interface{}{"xs": []interface{}{map[string]interface{}{"k": "v"}}},
	map[string]interface{}{"k": map[string]interface{}{"j": "z"}}, map[string]interface{}{"s": "text", "k": "a"},
}

func pick(xs []interface{}) interface{} { return enc.DeepCopy(xs[rng.Intn(len(xs))]) }

func genSpec() *mach.ASpec {
	names := []string{"start", "n1", "n2"}
	a := &mach.ASpec{Nodes: map[string]*mach.ANode{}}
	for _, name := range names {
		n := &mach.ANode{}
		if name != "start" && p(0.6) {
			n.Act = []mach.Op{{Name: "emit", V: map[string]interface{}{"at": name}}, {Name: "set", K: "seen", V: name}}
			if p(0.2) {
				n.Act = append(n.Act, mach.Op{Name: "throw"})
			}
			n.BType = []string{"bindings", ""}[rng.Intn(2)]
			n.Branches = []mach.ABranch{{Target: names[rng.Intn(3)]}}
			if p(0.5) {
				n.Branches = []mach.ABranch{{HasPat: true, Pat: map[string]interface{}{"seen": name}, Target: "start"}}
			}
		} else {
			n.BType = "message"
			for j, nb := 0, 1+rng.Intn(3); j < nb; j++ {
				br := mach.ABranch{HasPat: true, Pat: pick(patterns), Target: names[rng.Intn(3)]}
				if p(0.2) {
					br.Guard = []mach.Op{{Name: "set", K: "g", V: float64(j)}}
				}
				n.Branches = append(n.Branches, br)
			}
		}
		a.Nodes[name] = n
	}
	a.AEB = p(0.3)
	if p(0.3) {
		a.AEN = "start"
	}
	return a
}

type behaviour struct {
	Err   string      `json:"err"`
	Steps interface{} `json:"steps"`
}

// behaviours walks the message sequences, messages delivered one at a time
func behaviours(spec *core.Spec, seqs [][]interface{}) interface{} {
	out := T{}
	for _, ms := range seqs {
		st := &core.State{NodeName: "start", Bs: match.Bindings{}}
		steps := T{}
		for _, m := range ms {
			var w *core.Walked
			var err error
			outcome := "returned"
			func() {
				defer func() {
					if r := recover(); r != nil {
						outcome = "panicked"
					}
				}()
				w, err = spec.Walk(context.Background(), st, []interface{}{enc.DeepCopy(m)}, &core.Control{Limit: 100}, nil) // (the limit of core.DefaultControl, which cmd/msimple uses)
			}()
			_ = err
			if w == nil {
				steps = append(steps, O{"outcome": outcome, "state": T{"none"}, "emitted": T{}})
				continue
			}
			if to := w.To(); to != nil {
				st = to
			}
			em := T{}
			w.DoEmitted(func(x interface{}) error { em = append(em, enc.V(x)); return nil })
			steps = append(steps, O{"outcome": outcome, "state": normState(st), "emitted": em})
		}
		out = append(out, steps)
	}
	return out
}

// error texts are not predictable: keep only their presence
func normState(st *core.State) interface{} {
	bs := match.Bindings{}
	for k, v := range st.Bs {
		if k == "error" || k == "actionError" {
			v = "<err>"
		}
		if k == "lastBindings" {
			v = "<bs>"
		}
		bs[k] = v
	}
	return mach.EncState(&core.State{NodeName: st.NodeName, Bs: bs})
}

func compileErr(err error) string {
	if err == nil {
		return ""
	}
	return "error"
}

func jsonText(x interface{}) string { b, _ := json.Marshal(x); return string(b) }

// typedValue renders a pattern with Go's typed containers where they fit (as a Go host building a spec natively would):
// map[string]string, []string, int; anything else stays generic, with typed children
func typedValue(x interface{}) interface{} {
	switch vv := x.(type) {
	case float64:
		if vv == float64(int(vv)) {
			return int(vv)
		}
	case map[string]interface{}:
		allStr := len(vv) > 0
		for _, v := range vv {
			if _, is := v.(string); !is {
				allStr = false
			}
		}
		if allStr {
			m := map[string]string{}
			for k, v := range vv {
				m[k] = v.(string)
			}
			return m
		}
		m := map[string]interface{}{}
		for k, v := range vv {
			m[k] = typedValue(v)
		}
		return m
	case []interface{}:
		allStr := len(vv) > 0
		for _, v := range vv {
			if _, is := v.(string); !is {
				allStr = false
			}
		}
		if allStr {
			a := []string{}
			for _, v := range vv {
				a = append(a, v.(string))
			}
			return a
		}
		a := []interface{}{}
		for _, v := range vv {
			a = append(a, typedValue(v))
		}
		return a
	}
	return x
}

// withTypedPatterns: every pattern as typed Go data; under patternSyntax json (mixed = true) every other pattern is JSON
// text instead (the syntax allows both: text is parsed, anything else is taken as it is)
func withTypedPatterns(s *core.Spec, mixed bool) *core.Spec {
	if mixed {
		s.PatternSyntax = "json"
	}
	k := 0
	names := []string{}
	for name := range s.Nodes {
		names = append(names, name)
	}
	sort.Strings(names)
	for _, name := range names {
		n := s.Nodes[name]
		if n.Branches == nil {
			continue
		}
		for _, b := range n.Branches.Branches {
			k++
			if mixed && k%2 == 0 {
				b.Pattern = jsonText(b.Pattern)
			} else if _, bare := b.Pattern.(string); !bare || !mixed {
				// (a bare string under the JSON syntax is JSON text by definition)
				b.Pattern = typedValue(b.Pattern)
			} else {
				b.Pattern = jsonText(b.Pattern)
			}
		}
	}
	return s
}

// withJSONPatterns rewrites every branch pattern as JSON text under patternSyntax json
func withJSONPatterns(s *core.Spec) *core.Spec {
	s.PatternSyntax = "json"
	for _, n := range s.Nodes {
		if n.Branches == nil {
			continue
		}
		for _, b := range n.Branches.Branches {
			if b.Pattern != nil || true {
				b.Pattern = jsonText(b.Pattern)
			}
		}
	}
	return s
}

func one(id int, dir string) O {
	a := genSpec()
	unknown := ""
	badType := "msg"
	switch rng.Intn(12) {
	case 0:
		unknown = "interpreter"
	case 1:
		unknown = "branching"
		badType = []string{"msg", "Message", "MESSAGE", "Bindings", "messages", " message"}[rng.Intn(6)]
	case 2:
		unknown = "patternSyntax"
	}
	emptyBranching := rng.Intn(3) == 0
	mk := func() *core.Spec {
		s := mach.Build(a)
		s.Name = "spec" + strconv.Itoa(id)
		switch unknown {
		case "interpreter":
			for _, n := range s.Nodes {
				if n.ActionSource != nil {
					n.ActionSource.Interpreter = "cobol"
					return s
				}
			}
			s.Nodes["n1"].ActionSource = &core.ActionSource{Interpreter: "cobol", Source: "return _.bindings;"}
			if s.Nodes["n1"].Branches != nil && s.Nodes["n1"].Branches.Type == "message" {
				s.Nodes["n1"].Branches.Type = "bindings"
			}
		case "branching":
			if emptyBranching {
				// a branching section of an unknown type that lists no branches at all
				s.Nodes["start"].Branches = &core.Branches{Type: badType}
			} else {
				s.Nodes["start"].Branches.Type = badType
			}
		case "patternSyntax":
			s.PatternSyntax = "xml"
		}
		return s
	}
	var seqs [][]interface{}
	for i := 0; i < 3; i++ {
		var ms []interface{}
		for j, n := 0, 1+rng.Intn(3); j < n; j++ {
			ms = append(ms, pick(msgs))
		}
		seqs = append(seqs, ms)
	}
	ctx := context.Background()
	reps := T{}
	add := func(name string, spec *core.Spec, loadErr, cErr error) {
		r := O{"repr": name, "load": compileErr(loadErr), "compile": compileErr(cErr), "behaviours": T{}}
		if loadErr == nil && cErr == nil && spec != nil {
			r["behaviours"] = behaviours(spec, seqs)
		}
		reps = append(reps, r)
	}
	trap := func(f func() error) (err error) {
		defer func() {
			if r := recover(); r != nil {
				err = fmt.Errorf("panic: %v", r)
			}
		}()
		return f()
	}
	// go structures
	s := mk()
	add("go", s, nil, trap(func() error { return s.Compile(ctx, nil, true) }))
	// compiled again (not forced, forced)
	if s2 := mk(); true {
		e1 := trap(func() error { return s2.Compile(ctx, nil, false) })
		if e1 == nil {
			e1 = trap(func() error { return s2.Compile(ctx, nil, false) })
		}
		add("go-compiled-twice", s2, nil, e1)
		s3 := mk()
		e2 := trap(func() error { return s3.Compile(ctx, nil, true) })
		if e2 == nil {
			e2 = trap(func() error { return s3.Compile(ctx, nil, true) })
		}
		add("go-recompiled-forced", s3, nil, e2)
	}
	// JSON document
	js, _ := json.Marshal(mk())
	var sj core.Spec
	lerr := json.Unmarshal(js, &sj)
	add("json", &sj, lerr, trap(func() error { return sj.Compile(ctx, nil, true) }))
	// YAML document, loaded as the hosts load specs
	ys, yerr := jyaml.Marshal(mk())
	var sy core.Spec
	if yerr == nil {
		yerr = jyaml.Unmarshal(ys, &sy)
	}
	add("yaml", &sy, yerr, trap(func() error { return sy.Compile(ctx, nil, true) }))
	// the same YAML document as a file in a spec directory, for cmd/mcrew's Service.GetSpec (read by the overlay driver)
	if exportDir != "" && yerr == nil {
		check(os.WriteFile(filepath.Join(exportDir, "specs", "spec"+strconv.Itoa(id)+".yaml"), ys, 0644))
		line, _ := json.Marshal(O{"id": id, "name": "spec" + strconv.Itoa(id), "seqs": seqs})
		exportIn.Write(append(line, '\n'))
	}
	// patterns as JSON text under the JSON pattern syntax (only when the syntax is not the unknown under test)
	if unknown != "patternSyntax" {
		sp := withJSONPatterns(mk())
		add("go-json-patterns", sp, nil, trap(func() error { return sp.Compile(ctx, nil, true) }))
		sp2 := withJSONPatterns(mk())
		e := trap(func() error { return sp2.Compile(ctx, nil, true) })
		if e == nil {
			e = trap(func() error { return sp2.Compile(ctx, nil, true) })
		}
		add("go-json-patterns-compiled-twice", sp2, nil, e)
		// patterns parsed first (as tools do), then compiled
		sp3 := withJSONPatterns(mk())
		e = trap(func() error { return sp3.ParsePatterns(ctx) })
		if e == nil {
			e = trap(func() error { return sp3.Compile(ctx, nil, true) })
		}
		add("go-json-patterns-parsed-then-compiled", sp3, nil, e)
		// a first compilation that fails (no interpreters available), then a retry
		if unknown == "" {
			sp4 := withJSONPatterns(mk())
			first := trap(func() error { return sp4.Compile(ctx, core.InterpretersMap{}, true) })
			e = trap(func() error { return sp4.Compile(ctx, nil, true) })
			_ = first
			add("go-json-patterns-compile-retry", sp4, nil, e)
		}
		jsp, _ := json.Marshal(withJSONPatterns(mk()))
		var sjp core.Spec
		lerr = json.Unmarshal(jsp, &sjp)
		add("json-json-patterns", &sjp, lerr, trap(func() error { return sjp.Compile(ctx, nil, true) }))
	}
	// patterns as typed Go data (no syntax), and typed data mixed with JSON text under the JSON syntax
	if unknown != "patternSyntax" {
		st := withTypedPatterns(mk(), false)
		add("go-typed-patterns", st, nil, trap(func() error { return st.Compile(ctx, nil, true) }))
		sm := withTypedPatterns(mk(), true)
		add("go-json-syntax-typed-and-text", sm, nil, trap(func() error { return sm.Compile(ctx, nil, true) }))
	}
	// a compiled specification serialised and reloaded
	sc := mk()
	if trap(func() error { return sc.Compile(ctx, nil, true) }) == nil {
		jc, _ := json.Marshal(sc)
		var sr core.Spec
		lerr = json.Unmarshal(jc, &sr)
		add("compiled-serialised-reloaded", &sr, lerr, trap(func() error { return sr.Compile(ctx, nil, true) }))
		if unknown != "patternSyntax" {
			scp := withJSONPatterns(mk())
			if trap(func() error { return scp.Compile(ctx, nil, true) }) == nil {
				jc, _ := json.Marshal(scp)
				var sr2 core.Spec
				lerr = json.Unmarshal(jc, &sr2)
				add("json-patterns-compiled-serialised-reloaded", &sr2, lerr, trap(func() error { return sr2.Compile(ctx, nil, true) }))
			}
		}
	}
	// the single-loop crew's loader: inline, file:// JSON, file:// YAML
	var spec *core.Spec
	e := trap(func() error {
		var err error
		_, spec, err = sio.ResolveSpecSource(ctx, &crew.SpecSource{Inline: mk()})
		return err
	})
	add("sio-inline", spec, nil, e)
	jf := filepath.Join(dir, "s.json")
	os.WriteFile(jf, js, 0644)
	e = trap(func() error {
		var err error
		_, spec, err = sio.ResolveSpecSource(ctx, &crew.SpecSource{URL: "file://" + jf})
		return err
	})
	add("sio-file-json", spec, nil, e)
	// the same JSON document after a byte order mark, a newline and some spaces: still JSON
	jf2 := filepath.Join(dir, "s2.json")
	os.WriteFile(jf2, append([]byte("\xef\xbb\xbf\n  "), js...), 0644)
	e = trap(func() error {
		var err error
		_, spec, err = sio.ResolveSpecSource(ctx, &crew.SpecSource{URL: "file://" + jf2})
		return err
	})
	add("sio-file-json-after-whitespace", spec, nil, e)
	if yerr == nil {
		yf := filepath.Join(dir, "s.yaml")
		os.WriteFile(yf, ys, 0644)
		e = trap(func() error {
			var err error
			_, spec, err = sio.ResolveSpecSource(ctx, &crew.SpecSource{URL: "file://" + yf})
			return err
		})
		add("sio-file-yaml", spec, nil, e)
	}
	return O{"id": id, "kind": "load", "unknown": unknown, "badType": badType, "reps": reps, "raw": enc.Canon(O{"spec": a, "unknown": unknown, "emptyBranching": emptyBranching, "seqs": seqs})}
}

// documents that are not well-formed specifications: loading and compiling yields a spec or an error (C07)
func malformed(id int) O {
	docs := []string{
		`{"nodes":{"start":null}}`, `{"nodes":{"start":{"branching":null}}}`, `{"nodes":{"start":{"branching":{"branches":[null]}}}}`,
		`{"nodes":{"start":{"branching":{"type":"message","branches":[{"target":"nowhere"}]}}}}`, `{"nodes":null}`, `{}`, `null`,
		`{"nodes":{"start":{"action":{"interpreter":"ecmascript","source":"this is not javascript ("}}}}`,
		`{"nodes":{"start":{"action":{"interpreter":"ecmascript","source":42}}}}`, `{"nodes":{"start":{"action":null,"branching":{"type":"bindings","branches":[{"pattern":{"?a":1,"b":2},"target":"start"}]}}}}`,
		`{"patternSyntax":"json","nodes":{"start":{"branching":{"type":"message","branches":[{"pattern":"{not json","target":"start"}]}}}}`,
		`{"boot":{"interpreter":"nope","source":"x"},"nodes":{}}`,
		`{"nodes":{"start":{"branching":{"branches":[{"guard":{"interpreter":"ecmascript"},"target":"start"}]}}}}`,
		`{"nodes":{"start":{"branching":{"branches":[{"guard":{"interpreter":"ecmascript","source":null},"target":"start"}]}}}}`,
		`{"nodes":{"start":{"branching":{"branches":[{"guard":{"interpreter":"ecmascript","source":["return","_.bindings;"]},"target":"start"}]}}}}`,
		`{"nodes":{"start":{"branching":{"branches":[{"guard":{"interpreter":"ecmascript","source":{"code":"x"}},"target":"start"}]}}}}`,
		`{"nodes":{"start":{"branching":{"branches":[{"guard":{"interpreter":"nope","source":{"code":"x"}},"target":"start"}]}}}}`,
		`{"nodes":{"start":{"branching":{"branches":[{"guard":{"interpreter":"ecmascript","source":"syntax error ("},"target":"start"}]}}}}`,
		`{"nodes":{"start":{"action":{"interpreter":"nope","source":{"code":"x"}}}}}`,
		`{"nodes":{"start":{"action":{"interpreter":"ecmascript","source":["a","b"]}}}}`,
		`{"toob":{"interpreter":"ecmascript","source":null},"nodes":{}}`, `{"errorNode":"oops","noErrorNode":true,"nodes":{"start":{}}}`,
	}
	// documents without content: nothing at all, white space, a byte order mark, both
	docs = append(docs, "", "\n", "  \t\r\n", "\xef\xbb\xbf", "\xef\xbb\xbf\n  ", "\xef\xbb\xbf{}", "# only a comment\n", "---\n", "[]", "\"text\"", "42")
	doc := docs[rng.Intn(len(docs))]
	res := T{}
	for _, kind := range []string{"json", "yaml", "sio-file", "sio-file-yaml-name"} {
		outcome, lerr, cerr, werr, cerr2 := "returned", "", "", "", "n/a"
		func() {
			defer func() {
				if r := recover(); r != nil {
					outcome = "panicked: " + fmt.Sprint(r)
				}
			}()
			var s core.Spec
			var err error
			switch kind {
			case "json":
				err = json.Unmarshal([]byte(doc), &s)
			case "yaml":
				err = jyaml.Unmarshal([]byte(doc), &s)
			default:
				// the single-loop crew's loader reads the document from a file (and compiles it)
				f := filepath.Join(malformedDir, map[string]string{"sio-file": "doc.json", "sio-file-yaml-name": "doc.yaml"}[kind])
				check(os.WriteFile(f, []byte(doc), 0644))
				var sp *core.Spec
				_, sp, err = sio.ResolveSpecSource(context.Background(), &crew.SpecSource{URL: "file://" + f})
				lerr = compileErr(err)
				if err != nil || sp == nil {
					return
				}
				s = *sp
			}
			lerr = compileErr(err)
			if err != nil {
				return
			}
			err = s.Compile(context.Background(), nil, true)
			cerr = compileErr(err)
			if err != nil {
				// what Compile rejects it rejects again (the same object, compiled a second time)
				cerr2 = compileErr(s.Compile(context.Background(), nil, true))
				// ... and so is the same document read once more (a new object with the same sources)
				if kind == "json" || kind == "yaml" {
					var again core.Spec
					var lerr2 error
					if kind == "json" {
						lerr2 = json.Unmarshal([]byte(doc), &again)
					} else {
						lerr2 = jyaml.Unmarshal([]byte(doc), &again)
					}
					if lerr2 == nil && again.Compile(context.Background(), nil, true) == nil {
						cerr2 = ""
					}
				}
				return
			}
			cerr2 = ""
			w, err := s.Walk(context.Background(), &core.State{NodeName: "start", Bs: match.Bindings{}}, []interface{}{map[string]interface{}{"k": 1.0}}, nil, nil)
			werr = compileErr(err)
			_ = w
		}()
		res = append(res, O{"as": kind, "outcome": outcome, "load": lerr, "compile": cerr, "walk": werr, "compile2": cerr2})
	}
	return O{"id": id, "kind": "malformed", "doc": doc, "results": res, "raw": enc.Canon(O{"doc": doc})}
}

var exportDir string
var exportIn *os.File
var malformedDir string

// merge adds what cmd/mcrew's GetSpec made of each exported YAML file (plain JSON written by the overlay driver) as one
// more rendering of its case
func merge(casesPath, getspecPath, outPath, repr string) {
	type step struct {
		Outcome string                 `json:"outcome"`
		Node    string                 `json:"node"`
		Bs      map[string]interface{} `json:"bs"`
		None    bool                   `json:"none"`
		Emitted []interface{}          `json:"emitted"`
	}
	type res struct {
		Id   int      `json:"id"`
		Err  string   `json:"err"`
		Seqs [][]step `json:"seqs"`
	}
	by := map[int]res{}
	g, err := os.Open(getspecPath)
	check(err)
	sc := bufio.NewScanner(g)
	sc.Buffer(make([]byte, 1<<20), 1<<28)
	for sc.Scan() {
		var r res
		check(json.Unmarshal(sc.Bytes(), &r))
		by[r.Id] = r
	}
	g.Close()
	in, err := os.Open(casesPath)
	check(err)
	defer in.Close()
	f, err := os.Create(outPath)
	check(err)
	w := bufio.NewWriterSize(f, 1<<20)
	e := json.NewEncoder(w)
	e.SetEscapeHTML(false)
	sc = bufio.NewScanner(in)
	sc.Buffer(make([]byte, 1<<20), 1<<28)
	for sc.Scan() {
		var c map[string]interface{}
		check(json.Unmarshal(sc.Bytes(), &c))
		if r, have := by[int(c["id"].(float64))]; have && c["kind"] == "load" {
			rep := O{"repr": repr, "load": "", "compile": "", "behaviours": T{}}
			if r.Err != "" {
				rep["compile"] = "error"
			} else {
				bh := T{}
				for _, sq := range r.Seqs {
					steps := T{}
					for _, st := range sq {
						em := T{}
						for _, x := range st.Emitted {
							em = append(em, enc.V(x))
						}
						if st.None {
							steps = append(steps, O{"outcome": st.Outcome, "state": T{"none"}, "emitted": T{}})
						} else {
							steps = append(steps, O{"outcome": st.Outcome, "state": normState(&core.State{NodeName: st.Node, Bs: match.Bindings(st.Bs)}), "emitted": em})
						}
					}
					bh = append(bh, steps)
				}
				rep["behaviours"] = bh
			}
			c["reps"] = append(c["reps"].([]interface{}), rep)
		}
		check(e.Encode(c))
	}
	w.Flush()
	f.Close()
}

// msimple: what the single-machine host cmd/msimple makes of each exported YAML file.  The binary (built from the tree
// under test) is run once per message sequence with -r=false (emitted messages are printed, not fed back) and -d (the state
// after every message is printed as "# next <state>"); its output is turned into the same records the mcrew GetSpec driver
// writes.  The host reads the file with tools.ReadFileWithInlines and jsccast/yaml, compiles it with interpreters.Standard()
// and walks with core.DefaultControl.
func msimple(bin, dir, outPath string) {
	in, err := os.Open(filepath.Join(dir, "getspec_in.ndjson"))
	check(err)
	defer in.Close()
	f, err := os.Create(outPath)
	check(err)
	w := bufio.NewWriterSize(f, 1<<20)
	e := json.NewEncoder(w)
	e.SetEscapeHTML(false)
	sc := bufio.NewScanner(in)
	sc.Buffer(make([]byte, 1<<20), 1<<28)
	for sc.Scan() {
		var c struct {
			Id   int             `json:"id"`
			Name string          `json:"name"`
			Seqs [][]interface{} `json:"seqs"`
		}
		check(json.Unmarshal(sc.Bytes(), &c))
		if max, _ := strconv.Atoi(os.Getenv("MSIMPLE_MAX")); max > 0 && c.Id > max {
			break // (a process per message sequence: the thorough tier gives the host the first MSIMPLE_MAX files)
		}
		res := O{"id": c.Id, "err": ""}
		seqs := T{}
		for _, ms := range c.Seqs {
			var input bytes.Buffer
			for _, m := range ms {
				js, _ := json.Marshal(m)
				input.Write(js)
				input.WriteByte('\n')
			}
			ctx, cancel := context.WithTimeout(context.Background(), 60*time.Second)
			cmd := exec.CommandContext(ctx, bin, "-s", filepath.Join(dir, "specs", c.Name+".yaml"), "-n", "start", "-b", "{}", "-r=false", "-d")
			cmd.Stdin = &input
			var stdout, stderr bytes.Buffer
			cmd.Stdout, cmd.Stderr = &stdout, &stderr
			rerr := cmd.Run()
			cancel()
			if rerr != nil {
				// the host panics when the file does not load or compile
				res["err"] = "failed: " + lastLine(stderr.String())
				break
			}
			// one record per message: "# walked" opens it, "# next <state>" gives the state, other lines are emitted messages
			steps := T{}
			var cur O
			flush := func() {
				if cur != nil {
					steps = append(steps, cur)
				}
			}
			for _, line := range strings.Split(stdout.String(), "\n") {
				switch {
				case line == "# walked":
					flush()
					cur = O{"outcome": "returned", "none": true, "emitted": T{}}
				case strings.HasPrefix(line, "# next "):
					var st core.State
					check(json.Unmarshal([]byte(strings.TrimPrefix(line, "# next ")), &st))
					cur["none"], cur["node"], cur["bs"] = false, st.NodeName, map[string]interface{}(st.Bs)
				case line == "" || strings.HasPrefix(line, "#") || strings.HasPrefix(line, "warning:"):
				default:
					var x interface{}
					check(json.Unmarshal([]byte(line), &x))
					cur["emitted"] = append(cur["emitted"].(T), x)
				}
			}
			flush()
			seqs = append(seqs, steps)
		}
		res["seqs"] = seqs
		check(e.Encode(res))
	}
	w.Flush()
	f.Close()
}

func lastLine(s string) string {
	ls := strings.Split(strings.TrimSpace(s), "\n")
	for _, l := range ls {
		if strings.HasPrefix(l, "panic:") {
			return l
		}
	}
	return ls[len(ls)-1]
}

func main() {
	log.SetOutput(io.Discard)
	if os.Args[1] == "merge" {
		repr := "mcrew-getspec"
		if len(os.Args) > 5 {
			repr = os.Args[5]
		}
		merge(os.Args[2], os.Args[3], os.Args[4], repr)
		return
	}
	if os.Args[1] == "msimple" {
		msimple(os.Args[2], os.Args[3], os.Args[4])
		return
	}
	n, _ := strconv.Atoi(os.Args[2])
	seed, _ := strconv.Atoi(os.Args[3])
	rng = rand.New(rand.NewSource(int64(seed)))
	f, err := os.Create(os.Args[4])
	check(err)
	w := bufio.NewWriterSize(f, 1<<20)
	e := json.NewEncoder(w)
	e.SetEscapeHTML(false)
	dir, err := os.MkdirTemp("", "verif-loader")
	check(err)
	defer os.RemoveAll(dir)
	malformedDir = dir
	if exportDir = os.Getenv("LOADER_EXPORT"); exportDir != "" && os.Args[1] == "gen" {
		check(os.MkdirAll(filepath.Join(exportDir, "specs"), 0755))
		exportIn, err = os.Create(filepath.Join(exportDir, "getspec_in.ndjson"))
		check(err)
		defer exportIn.Close()
	} else {
		exportDir = ""
	}
	for id := 1; id <= n; id++ {
		if os.Args[1] == "malformed" {
			check(e.Encode(malformed(id)))
		} else {
			check(e.Encode(one(id, dir)))
		}
	}
	w.Flush()
	f.Close()
}

func check(err error) {
	if err != nil {
		fmt.Fprintln(os.Stderr, "loaderdrv:", err)
		os.Exit(2)
	}
}
