// specterdrv walks distinct machine states concurrently over one compiled specification
// object (native and ECMAScript actions and guards, failing and succeeding) while an
// UpdatableSpec is swapped between versions, and records call/return events with a global
// sequence number plus the table of results each (version, input) gives alone (C12).
//
//	specterdrv run <n> <seed> <out.ndjson>
package main

import (
	"bufio"
	"context"
	"encoding/json"
	"fmt"
	"math/rand"
	"os"
	"runtime"
	"strconv"
	"sync"
	"time"

	"verifharness/enc"
	"verifharness/mach"

	"github.com/Comcast/sheens/core"
	"github.com/Comcast/sheens/match"
)

type O = enc.O
type T = enc.T

// version k of the specification: every action reveals the version in what it emits
func version(k int, uniq string) *mach.ASpec {
	tag := float64(k)
	x := "?x" + uniq
	return &mach.ASpec{Nodes: map[string]*mach.ANode{
		"n0": {BType: "message", Branches: []mach.ABranch{
			{HasPat: true, Pat: map[string]interface{}{"go" + uniq: x}, Target: "n1"},
			{HasPat: true, Pat: map[string]interface{}{"fail" + uniq: x}, Target: "bad"},
			{HasPat: true, Pat: map[string]interface{}{"nat" + uniq: x}, Target: "nat"},
			{HasPat: true, Pat: map[string]interface{}{"likes" + uniq: []interface{}{x, "chips", "tacos"}}, Target: "n1"}}},
		"n1": {Act: []mach.Op{{Name: "emit", V: map[string]interface{}{"v": tag, "at": "n1"}}, {Name: "set", K: "ver", V: tag}, {Name: "setfrom", K: "last", K2: x}, {Name: "propcount", K: "visits"}},
			BType: "bindings", Branches: []mach.ABranch{
				{HasPat: true, Pat: map[string]interface{}{x: float64(k)}, Guard: []mach.Op{{Name: "set", K: "guarded", V: tag}}, Target: "n2"},
				{Guard: []mach.Op{{Name: "retnull"}}, Target: "bad"},
				{HasPat: true, Pat: map[string]interface{}{}, Target: "n2"}}},
		"n2": {Native: true, Act: []mach.Op{{Name: "emit", V: map[string]interface{}{"v": tag, "at": "n2"}}, {Name: "del", K: x}}, BType: "bindings", Branches: []mach.ABranch{{Target: "n0"}}},
		"nat": {Native: true, Act: []mach.Op{{Name: "emit", V: map[string]interface{}{"v": tag, "at": "nat"}}, {Name: "set", K: "n", V: tag}}, BType: "bindings",
			Branches: []mach.ABranch{{Guard: []mach.Op{{Name: "set", K: "g", V: tag}}, Target: "n0"}}},
		"bad": {Act: []mach.Op{{Name: "emit", V: map[string]interface{}{"v": tag, "at": "bad"}}, {Name: "throw"}}, BType: "bindings", Branches: []mach.ABranch{{Target: "n0"}}},
	}, AEN: map[bool]string{true: "n0", false: ""}[k%2 == 0]}
}

type input struct {
	bs      match.Bindings
	msgs    []interface{}
	noProps bool
}

func encWalk(w *core.Walked, err error, outcome string) interface{} {
	if w == nil {
		return O{"outcome": outcome, "stopped": "", "to": T{"none"}, "emitted": T{}, "n": 0}
	}
	em := T{}
	w.DoEmitted(func(x interface{}) error { em = append(em, enc.V(x)); return nil })
	return O{"outcome": outcome, "stopped": w.StoppedBecause.String(), "to": mach.EncState(w.To()), "emitted": em, "n": len(w.Strides)}
}

func walk(spec *core.Spec, in input) (res interface{}, outcome string) {
	outcome = "returned"
	var w *core.Walked
	var err error
	func() {
		defer func() {
			if r := recover(); r != nil {
				outcome = "panicked"
			}
		}()
		st := &core.State{NodeName: "n0", Bs: enc.DeepCopy(in.bs).(match.Bindings)}
		props := core.StepProps{"mid": "m"}
		if in.noProps {
			props = nil // (the hosts pass the machine's id; a library user may pass nothing)
		}
		w, err = spec.Walk(context.Background(), st, enc.DeepCopy(in.msgs).([]interface{}), &core.Control{Limit: 30}, props)
	}()
	return encWalk(w, err, outcome), outcome
}

type recorder struct {
	sync.Mutex
	seq    int
	events T
}

func (r *recorder) add(ev O) {
	r.Lock()
	r.seq++
	ev["seq"] = r.seq
	r.events = append(r.events, ev)
	r.Unlock()
}

func history(id int, rng *rand.Rand) O {
	nv := 2 + rng.Intn(2)
	uniq := strconv.Itoa(id)
	specs := map[int]*core.Spec{}
	for k := 1; k <= nv; k++ {
		s, err := mach.Compile(version(k, uniq))
		check(err)
		specs[k] = s
	}
	ni := 3 + rng.Intn(4)
	inputs := make([]input, ni)
	kinds := []string{"go", "fail", "nat", "likes"}
	for i := range inputs {
		var ms []interface{}
		for j, n := 0, 1+rng.Intn(3); j < n; j++ {
			k := kinds[rng.Intn(4)]
			var v interface{} = float64(1 + rng.Intn(3))
			if k == "likes" {
				v = []interface{}{"tacos", float64(1 + rng.Intn(3)), "chips"}
			}
			ms = append(ms, map[string]interface{}{k + uniq: v})
		}
		// every machine has permanent bindings of its own (values and names): nothing of one machine may turn up in another
		bs := match.Bindings{"who": float64(i), "p!": "keep" + strconv.Itoa(i)}
		if i%2 == 0 {
			bs["tenant"+strconv.Itoa(i)+"!"] = float64(i)
		}
		if i%3 == 2 {
			delete(bs, "p!")
		}
		inputs[i] = input{bs: bs, msgs: ms, noProps: i%2 == 1}
	}
	// in half of the histories the later versions are DERIVED from version 1 while it is in use: copied
	// (Spec.Copy), edited (another target, another action source) and compiled by the swapper
	derived := rng.Intn(2) == 0
	var smu sync.Mutex
	derive := func(k int) *core.Spec {
		smu.Lock()
		base := specs[1]
		smu.Unlock()
		d := base.Copy(strconv.Itoa(k))
		d.Nodes["n0"].Branches.Branches[0].Target = "nat"
		d.Nodes["n0"].Branches.Branches[3].Target = "bad"
		d.Nodes["n1"].ActionSource.Source = mach.JS(version(k, uniq).Nodes["n1"].Act)
		d.Nodes["bad"].ActionSource.Source = mach.JS(version(k, uniq).Nodes["bad"].Act)
		check(d.Compile(context.Background(), nil, true))
		return d
	}
	if derived {
		for k := 2; k <= nv; k++ {
			delete(specs, k)
		}
	}
	before := map[int]string{}
	for k, s := range specs {
		before[k] = mach.SpecSnapshot(s)
	}
	us := core.NewUpdatableSpec(specs[1])
	hot := core.NewUpdatableSpec(specs[1]) // a second updatable spec, swapped as fast as possible and only read by the nil-reader
	rec := &recorder{}
	runtime.GOMAXPROCS([]int{2, 4, 16}[rng.Intn(3)])
	var wg sync.WaitGroup
	g := 2 + rng.Intn(5)
	stop := make(chan bool)
	wg.Add(1)
	go func() { // the swapper
		defer wg.Done()
		r := rand.New(rand.NewSource(int64(id)))
		for s := 0; s < 3; s++ {
			select {
			case <-stop:
				return
			case <-time.After(time.Duration(r.Intn(300)) * time.Microsecond):
			}
			k := 1 + r.Intn(nv)
			smu.Lock()
			next, have := specs[k]
			smu.Unlock()
			if !have {
				next = derive(k)
				smu.Lock()
				specs[k] = next
				before[k] = mach.SpecSnapshot(next)
				smu.Unlock()
			}
			rec.add(O{"ev": "swap-call", "v": strconv.Itoa(k)})
			us.SetSpec(next)
			rec.add(O{"ev": "swap-ret", "v": strconv.Itoa(k)})
		}
	}()
	// a reader that does nothing but ask the updatable spec for its current version, all the time: it must always get a
	// complete version (never nil) - the sensor for an update that is not one atomic step
	nilSeen := 0
	wg.Add(1)
	go func() {
		defer wg.Done()
		var holder core.Specter = hot
		for {
			select {
			case <-stop:
				return
			default:
			}
			for k := 0; k < 2000; k++ {
				if holder.Spec() == nil {
					nilSeen++
				}
			}
		}
	}()
	// ... and a second swapper that swaps as fast as it can between the versions that exist
	wg.Add(1)
	go func() {
		defer wg.Done()
		for k := 0; ; k++ {
			select {
			case <-stop:
				return
			default:
			}
			smu.Lock()
			cur := specs[1]
			smu.Unlock()
			hot.SetSpec(cur)
		}
	}()
	var wwg sync.WaitGroup
	for w := 0; w < g; w++ {
		wwg.Add(1)
		go func(w int) {
			defer wwg.Done()
			r := rand.New(rand.NewSource(int64(id*100 + w)))
			for j := 0; j < 2; j++ {
				i := r.Intn(ni)
				gid := fmt.Sprintf("w%d.%d", w, j)
				rec.add(O{"ev": "walk-call", "g": gid, "input": strconv.Itoa(i)})
				var spec core.Specter = us // what hosts hold
				res, outcome := walk(spec.Spec(), inputs[i])
				rec.add(O{"ev": "walk-ret", "g": gid, "input": strconv.Itoa(i), "res": res, "outcome": outcome})
			}
		}(w)
	}
	wwg.Wait()
	close(stop)
	wg.Wait()
	runtime.GOMAXPROCS(runtime.NumCPU())
	// what each (version, input) gives alone (computed after the concurrent phase, so that the
	// concurrent walks are the first use of this history's patterns and sources)
	for k := 2; k <= nv; k++ {
		if _, have := specs[k]; !have {
			specs[k] = derive(k)
			before[k] = mach.SpecSnapshot(specs[k])
		}
	}
	solo := O{}
	for k := 1; k <= nv; k++ {
		row := O{}
		for i, in := range inputs {
			r, _ := walk(specs[k], in)
			row[strconv.Itoa(i)] = r
		}
		solo[strconv.Itoa(k)] = row
	}
	unchanged := true
	for k, s := range specs {
		if mach.SpecSnapshot(s) != before[k] {
			unchanged = false
		}
	}
	return O{"id": id, "kind": "specter", "initial": "1", "solo": solo, "events": rec.events, "specUnchanged": unchanged, "nilSeen": nilSeen,
		"raw": enc.Canon(O{"versions": nv, "inputs": ni, "walkers": g, "derived": derived})}
}

func main() {
	n, _ := strconv.Atoi(os.Args[2])
	seed, _ := strconv.Atoi(os.Args[3])
	rng := rand.New(rand.NewSource(int64(seed)))
	f, err := os.Create(os.Args[4])
	check(err)
	w := bufio.NewWriterSize(f, 1<<20)
	e := json.NewEncoder(w)
	e.SetEscapeHTML(false)
	for id := 1; id <= n; id++ {
		check(e.Encode(history(id, rng)))
	}
	w.Flush()
	f.Close()
}

func check(err error) {
	if err != nil {
		fmt.Fprintln(os.Stderr, "specterdrv:", err)
		os.Exit(2)
	}
}
