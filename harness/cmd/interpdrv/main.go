// interpdrv drives the real ECMAScript interpreter (C10 isolation, C11 timeouts) and
// records what polluting and probe scripts observe, the caller's data before and after,
// and the timing of executions under deadlines and cancellation.  TLC judges
// (spec/Trace_Interp.tla).
//
//	interpdrv iso <n> <seed> <out.ndjson>
//	interpdrv time <n> <seed> <out.ndjson>
package main

import (
	"bufio"
	"context"
	"encoding/json"
	"fmt"
	"math/rand"
	"os"
	"runtime"
	"strconv"
	"strings"
	"sync"
	"time"

	"verifharness/enc"

	"github.com/Comcast/sheens/core"
	"github.com/Comcast/sheens/interpreters/ecmascript"
	"github.com/Comcast/sheens/match"
)

type O = enc.O
type T = enc.T

var rng *rand.Rand

// ---------------------------------------------------------------- C10

var polluters = map[string]string{
	"defglobal":     `polluted = 1; this.polluted2 = 2; var polluted3 = 3; return _.bindings;`,
	"patchproto":    `Object.prototype.polluted = 1; Array.prototype.polluted = function() { return 1; }; String.prototype.evil = 1; return _.bindings;`,
	"patchjson":     `JSON.stringify = function() { return "x"; }; Object.keys = function() { return ["evil"]; }; return _.bindings;`,
	"replaceenv":    `_.out = 5; _.evil = 1; var b = _.bindings; _.bindings = {evil: 1}; return b;`,
	"mutatenested":  `_.bindings.n.k = 99; _.bindings.arr.push(7); _.bindings.n.deep.z = [1]; delete _.bindings.gone; return {ok: 1};`,
	"mutateprops":   `_.props.top = 1; if (_.props.n) { _.props.n.k = 2; _.props.n.added = {x: 1}; } if (_.props.list) { _.props.list.push(9); } if (_.props.labels) { _.props.labels.env = "x"; } if (_.props.peers) { _.props.peers[0] = "x"; } if (_.props.rows) { _.props.rows[0].r = "x"; } if (_.props.attrs) { _.props.attrs.deep.z.push(9); _.props.attrs.deep.w = 1; } if (_.props.queue) { _.props.queue[0].c = 7; _.props.queue[1].push(8); } return _.bindings;`,
	"throwafter":    `polluted = 1; Object.prototype.polluted = 1; _.bindings.n.k = 98; throw "boom";`,
	"emitandmutate": `var m = {a: {b: 1}}; _.out(m); m.a.b = 2; _.bindings.n.k = 97; return _.bindings;`,
	// (also for bindings that are empty: there is something to modify - the map itself)
	"addkeys":     `_.bindings.added = 1; _.bindings["?attempts"] = 1; _.bindings.evil = 1; return {ok: 1};`,
	"addkeysthrow": `_.bindings.added = 1; _.bindings.evil = 1; throw "boom";`,
}
var polluterNames = []string{"defglobal", "patchproto", "patchjson", "replaceenv", "mutatenested", "mutateprops", "throwafter", "emitandmutate", "addkeys", "addkeysthrow"}

const probeSrc = `
var r = {};
r.global = (typeof polluted === 'undefined' && typeof polluted2 === 'undefined' && typeof polluted3 === 'undefined') ? "clean" : "defined";
r.proto = (({}).polluted === undefined && ([]).polluted === undefined && ("").evil === undefined) ? "clean" : "patched";
r.json = (JSON.stringify([1]) === "[1]" && Object.keys({a: 1}).join(",") === "a") ? "clean" : "patched";
r.env = (typeof _.out === 'function' && _.evil === undefined && _.bindings.evil === undefined) ? "clean" : "replaced";
r.nk = (_.bindings.n && _.bindings.n.k !== undefined) ? _.bindings.n.k : -1;
r.arrlen = _.bindings.arr ? _.bindings.arr.length : -1;
r.propsnk = (_.props.n && _.props.n.k !== undefined) ? _.props.n.k : -1;
r.propstop = (_.props.top === undefined) ? "clean" : "set";
return r;
`

var bsMode = 0 // 0: nested values, 1: empty (the same for every execution of a case)

func freshBs() match.Bindings {
	if bsMode == 1 {
		return match.Bindings{}
	}
	return match.Bindings{"n": map[string]interface{}{"k": float64(1), "deep": map[string]interface{}{"z": []interface{}{}}},
		"arr": []interface{}{float64(1), float64(2)}, "gone": "here"}
}

var propsMode = 0 // 0: nested values, 1: empty, 2: nil (the same for every execution of a case)

func freshProps() core.StepProps {
	switch propsMode {
	case 1:
		return core.StepProps{}
	case 2:
		return nil
	}
	return core.StepProps{"mid": "m1", "n": map[string]interface{}{"k": float64(1)}, "list": []interface{}{float64(1)},
		// containers of other Go types
		"labels": map[string]string{"env": "prod"}, "peers": []string{"p1", "p2"}, "rows": []map[string]interface{}{{"r": "one"}},
		// ... and of a host's own named types, with elements of any type
		"attrs": hostAttrs{"k": float64(1), "deep": map[string]interface{}{"z": []interface{}{float64(1)}}},
		"queue": hostQueue{map[string]interface{}{"c": float64(1)}, []interface{}{float64(2)}}}
}

type hostAttrs map[string]interface{}
type hostQueue []interface{}

// plainJSON: the value as generic JSON data (typed maps and slices included)
func plainJSON(x interface{}) interface{} {
	js, err := json.Marshal(x)
	check(err)
	var y interface{}
	check(json.Unmarshal(js, &y))
	return y
}

type execOut struct {
	Bs      interface{} `json:"bs"`
	Emitted interface{} `json:"emitted"`
	Err     string      `json:"err"`
	HasBs   bool        `json:"hasBs"`
}

func runExec(i *ecmascript.Interpreter, ctx context.Context, bs match.Bindings, props core.StepProps, src string, compiled interface{}) execOut {
	var exe *core.Execution
	var err error
	func() {
		defer func() {
			if r := recover(); r != nil {
				err = fmt.Errorf("panic: %v", r)
			}
		}()
		exe, err = i.Exec(ctx, bs, props, src, compiled)
	}()
	o := execOut{Bs: O{}, Emitted: T{}}
	if err != nil {
		o.Err = "error"
		if strings.Contains(err.Error(), "panic") {
			o.Err = "panic"
		}
	}
	if exe != nil {
		if exe.Bs != nil {
			o.Bs, o.HasBs = enc.Bs(exe.Bs), true
		}
		em := T{}
		if exe.Events != nil {
			for _, m := range exe.Emitted {
				em = append(em, enc.V(m))
			}
		}
		o.Emitted = em
	}
	return o
}

// isoCase: a sequence of polluting executions followed by (and, optionally, concurrent with)
// probe executions, on one interpreter; same and different compiled sources.
func isoCase(id int) O {
	in := ecmascript.NewInterpreter()
	ctx := context.Background()
	propsMode = []int{0, 0, 1, 2}[rng.Intn(4)]
	bsMode = []int{0, 0, 0, 1}[rng.Intn(4)]
	bs, props := freshBs(), freshProps()
	bsBefore, propsBefore := enc.Bs(bs), enc.V(plainJSON(map[string]interface{}(props)))
	compiled := map[string]interface{}{}
	get := func(name, src string) interface{} {
		if c, have := compiled[name]; have {
			return c
		}
		c, err := in.Compile(ctx, src)
		check(err)
		compiled[name] = c
		return c
	}
	probeC := get("probe", probeSrc)
	// solo probe on pristine data: the reference observation
	solo := runExec(in, ctx, freshBs(), freshProps(), probeSrc, probeC)
	seq := T{}
	n := 1 + rng.Intn(3)
	names := []string{}
	for k := 0; k < n; k++ {
		name := polluterNames[rng.Intn(len(polluterNames))]
		names = append(names, name)
		r := runExec(in, ctx, bs, props, polluters[name], get(name, polluters[name]))
		seq = append(seq, O{"polluter": name, "err": r.Err})
	}
	// the caller's data after the polluting executions
	bsAfter, propsAfter := enc.Bs(bs), enc.V(plainJSON(map[string]interface{}(props)))
	after := runExec(in, ctx, bs, props, probeSrc, probeC)
	// concurrent: polluters and probes on the same compiled programs at once
	conc := T{}
	var wg sync.WaitGroup
	var mu sync.Mutex
	g := 8 + rng.Intn(9)
	for k := 0; k < g; k++ {
		wg.Add(1)
		go func(k int) {
			defer wg.Done()
			if k%2 == 0 {
				name := names[k%len(names)]
				runExec(in, ctx, freshBs(), freshProps(), polluters[name], compiled[name])
				return
			}
			r := runExec(in, ctx, freshBs(), freshProps(), probeSrc, probeC)
			mu.Lock()
			conc = append(conc, r)
			mu.Unlock()
		}(k)
	}
	wg.Wait()
	// ... and through the engine's wrapper for compiled actions (core.FuncAction), several executions at once on ONE bindings
	// map that has a permanent binding: what is given to an execution is only read (the race build is the sensor for a write)
	shared := freshBs()
	shared["keep!"] = map[string]interface{}{"k": float64(1)}
	if act, err := (&core.ActionSource{Interpreter: "ecmascript", Source: probeSrc}).Compile(ctx, core.InterpretersMap{"ecmascript": in}); err == nil {
		var swg sync.WaitGroup
		for k := 0; k < 6; k++ {
			swg.Add(1)
			go func() {
				defer swg.Done()
				defer func() { recover() }()
				for j := 0; j < 3; j++ {
					act.Exec(ctx, shared, freshProps())
				}
			}()
		}
		swg.Wait()
	}
	// ... and the extended interpreter's _.match built-in from several executions at once: each gets the answer it gets alone
	matchSame := true
	{
		inx := ecmascript.NewInterpreter()
		inx.Extended = true
		src := `var n = _.bindings.n; var r = _.match({"a": "?x", "b": [1], "c": {"d": "?z"}}, {"a": n, "b": [1, n + 2], "c": {"d": "v" + n, "e": [n, n, n]}}, {}); return {len: r.length, x: r.length ? r[0]["?x"] : null, z: r.length ? r[0]["?z"] : null};`
		if cm, err := inx.Compile(ctx, src); err == nil {
			alone := map[int]string{}
			run := func(n int) string {
				r := runExec(inx, ctx, match.Bindings{"n": float64(n)}, nil, src, cm)
				js, _ := json.Marshal(r.Bs)
				return r.Err + string(js)
			}
			for n := 0; n < 6; n++ {
				alone[n] = run(n)
			}
			var mwg sync.WaitGroup
			var mmu sync.Mutex
			for k := 0; k < 6; k++ {
				mwg.Add(1)
				go func(n int) {
					defer mwg.Done()
					for j := 0; j < 25; j++ {
						if got := run(n); got != alone[n] {
							mmu.Lock()
							matchSame = false
							mmu.Unlock()
						}
					}
				}(k)
			}
			mwg.Wait()
		}
	}
	return O{"id": id, "kind": "iso", "propsMode": propsMode, "bsMode": bsMode, "matchSame": matchSame, "polluters": seq, "solo": solo, "after": after, "concurrent": conc,
		"bsBefore": bsBefore, "bsAfter": bsAfter, "propsBefore": propsBefore, "propsAfter": propsAfter,
		"raw": enc.Canon(O{"polluters": names})}
}

// ---------------------------------------------------------------- C11

var loops = map[string]string{
	"tight":     `for (;;) { }`,
	"counter":   `var i = 0; while (true) { i = i + 1; }`,
	"recursion": `function f(n) { return f(n + 1) + 1; } try { f(0); } catch (e) { } for (;;) { try { f(0); } catch (e) { } }`,
	"props":     `var o = {}; var i = 0; for (;;) { o["k" + (i % 100)] = i; delete o["k" + ((i + 50) % 100)]; i++; }`,
	"arrays":    `var a = []; for (;;) { a.push(1); if (a.length > 1000) { a = []; } }`,
	"strings":   `var s = ""; for (;;) { s = s + "x"; if (s.length > 1000) { s = ""; } }`,
	"nested":    `for (;;) { for (var i = 0; i < 1000; i++) { var x = i * 2; } }`,
	"finite":    `var t = 0; for (var i = 0; i < 20000; i++) { t += i; } return {t: t};`,
	// interpreted code that runs after the program proper: a getter of the returned object, the text of a thrown value
	"getterloop":   `return {get x() { for (;;) { } }};`,
	"tostringloop": `throw {toString: function() { for (;;) { } }};`,
}
var loopNames = []string{"tight", "counter", "recursion", "props", "arrays", "strings", "nested", "finite", "getterloop", "tostringloop"}

// scripts that end by themselves, in every way an execution can end: whatever the execution started
// (the watcher goroutine) must end with the call on each of these paths
var finite = map[string]string{
	"finite":          loops["finite"],
	"finite-null":     `return null;`,
	"finite-nothing":  `var x = 1;`,
	"finite-scalar":   `return 42;`,
	"finite-array":    `return [1, 2];`,
	"finite-throw":    `throw "x";`,
	"finite-throwobj": `throw {toString: function() { throw new Error("y"); }};`,
	"finite-getter":   `return {get x() { throw new Error("z"); }};`,
	"finite-cyclic":   `var a = []; a.push(a); return a;`,
	"finite-badout":   `_.out(function() { return 1; }); return _.bindings;`,
	"finite-syntax":   `return eval("(");`,
	// runaway recursion through built-ins (each level nests Go frames): ends with the runtime's call-depth limit
	"finite-getter-recursion": `var o = {get x() { return this.x; }}; return {v: o.x};`,
	"finite-call-recursion":   `function g() { return g.call(this); } return {v: g()};`,
	"finite-sort-recursion":   `function f() { [2, 1].sort(function(a, b) { f(); return 0; }); } f(); return {};`,
}
var finiteNames = []string{"finite", "finite", "finite-null", "finite-nothing", "finite-scalar", "finite-array", "finite-throw", "finite-throwobj", "finite-getter",
	"finite-cyclic", "finite-badout", "finite-syntax", "finite-getter-recursion", "finite-call-recursion", "finite-sort-recursion"}

func init() {
	for k, v := range finite {
		loops[k] = v
	}
	// the runtime's call-depth limit is not an exception a script can catch: the "recursion" script, which catches what
	// its recursion throws and starts over, ends with that error (it is a script that fails, not one that never ends)
	finite["recursion"] = loops["recursion"]
}

func isFinite(name string) bool { _, is := finite[name]; return is }

func timeCase(id int) O {
	in := ecmascript.NewInterpreter()
	par := []int{1, 1, 2, 4, 16, 64}[rng.Intn(6)]
	t0 := time.Now()
	ms := func() int { return int(time.Since(t0) / time.Millisecond) }
	runtime.GC()
	time.Sleep(5 * time.Millisecond)
	gBefore := runtime.NumGoroutine()
	type one struct {
		Script                string
		DeadlineMs, CancelMs  int
		Start, CtxDone, Ret   int
		Err                   string
		Hung                  bool
		ViaWalk               bool
		WalkNode, WalkErrText string
	}
	res := make([]one, par)
	// scheduling jitter of this very moment: how late a goroutine that sleeps 1 ms wakes up (the judge's tolerance grows with it,
	// so that an overloaded machine is not mistaken for a late interrupt)
	jitterStop := make(chan bool)
	jitterDone := make(chan int, 1)
	go func() {
		worst := 0
		for {
			select {
			case <-jitterStop:
				jitterDone <- worst
				return
			default:
			}
			t := time.Now()
			time.Sleep(time.Millisecond)
			if d := int(time.Since(t)/time.Millisecond) - 1; d > worst {
				worst = d
			}
		}
	}()
	var wg sync.WaitGroup
	longCtx := rng.Intn(3) == 0
	var late []context.CancelFunc
	var lateMu sync.Mutex
	for k := 0; k < par; k++ {
		name := loopNames[rng.Intn(len(loopNames))]
		if longCtx || rng.Intn(6) == 0 {
			name = finiteNames[rng.Intn(len(finiteNames))]
		}
		deadline := []int{0, 1, 5, 20, 50, 120, 300}[rng.Intn(7)]
		cancelAt := -1
		if rng.Intn(3) == 0 {
			cancelAt = rng.Intn(60)
			if rng.Intn(2) == 0 {
				deadline = []int{3000, 5000}[rng.Intn(2)] // a distant deadline, cancelled long before it
			}
		}
		viaWalk := rng.Intn(4) == 0
		res[k] = one{Script: name, DeadlineMs: deadline, CancelMs: cancelAt, ViaWalk: viaWalk}
		wg.Add(1)
		go func(k int) {
			defer wg.Done()
			r := &res[k]
			ctx, cancel := context.WithTimeout(context.Background(), time.Duration(r.DeadlineMs)*time.Millisecond)
			if longCtx && isFinite(r.Script) {
				// a context that outlives the execution: whatever the execution started must
				// end with the call, not with the context
				ctx, cancel = context.WithCancel(context.Background())
				r.DeadlineMs, r.CancelMs = 1000000, -1
				lateMu.Lock()
				late = append(late, cancel)
				lateMu.Unlock()
				cancel = func() {}
			}
			defer cancel()
			if r.CancelMs >= 0 {
				go func() { time.Sleep(time.Duration(r.CancelMs) * time.Millisecond); cancel() }()
			}
			if !(longCtx && isFinite(r.Script)) {
				go func() { <-ctx.Done(); r.CtxDone = ms() }()
			}
			done := make(chan bool, 1)
			r.Start = ms()
			go func() {
				if r.ViaWalk {
					spec := &core.Spec{Name: "t", Nodes: map[string]*core.Node{
						"start": {ActionSource: &core.ActionSource{Interpreter: "ecmascript", Source: loops[r.Script]},
							Branches: &core.Branches{Type: "bindings", Branches: []*core.Branch{{Target: "end"}}}},
						"end": {}}}
					if err := spec.Compile(context.Background(), core.InterpretersMap{"ecmascript": in}, true); err != nil {
						r.Err = "compile"
					} else {
						w, _ := spec.Walk(ctx, &core.State{NodeName: "start", Bs: match.Bindings{}}, nil, &core.Control{Limit: 5}, nil)
						if to := w.To(); to != nil {
							r.WalkNode = to.NodeName
							if s, is := to.Bs["error"].(string); is {
								r.WalkErrText = s
								if strings.Contains(s, "timeout") {
									r.Err = "timeout"
								} else {
									r.Err = "other"
								}
							}
						}
					}
				} else {
					_, err := in.Exec(ctx, match.Bindings{}, nil, loops[r.Script], nil)
					switch {
					case err == nil:
					case err == ecmascript.Interrupted, strings.Contains(err.Error(), "timeout"):
						r.Err = "timeout"
					default:
						r.Err = "other"
					}
				}
				done <- true
			}()
			select {
			case <-done:
				r.Ret = ms()
			case <-time.After(6 * time.Second):
				r.Hung = true
				r.Ret = ms()
			}
		}(k)
	}
	wg.Wait()
	close(jitterStop)
	jitter := <-jitterDone
	// settle, then count goroutines again
	gAfter := 0
	for tries := 0; tries < 40; tries++ {
		time.Sleep(10 * time.Millisecond)
		gAfter = runtime.NumGoroutine()
		if gAfter <= gBefore {
			break
		}
	}
	for _, c := range late {
		c()
	}
	execs := T{}
	for _, r := range res {
		execs = append(execs, O{"script": r.Script, "terminates": isFinite(r.Script), "fails": isFinite(r.Script) && r.Script != "finite" && r.Script != "finite-null" && r.Script != "finite-nothing", "deadline": r.DeadlineMs, "cancel": r.CancelMs, "start": r.Start,
			"ctxDone": r.CtxDone, "ret": r.Ret, "err": r.Err, "hung": r.Hung, "viaWalk": r.ViaWalk, "walkNode": r.WalkNode, "walkErrText": r.WalkErrText != ""})
	}
	return O{"id": id, "kind": "time", "par": par, "execs": execs, "gBefore": gBefore, "gAfter": gAfter, "jitter": jitter, "raw": enc.Canon(O{"par": par})}
}

func main() {
	mode := os.Args[1]
	n, _ := strconv.Atoi(os.Args[2])
	seed, _ := strconv.Atoi(os.Args[3])
	rng = rand.New(rand.NewSource(int64(seed)))
	f, err := os.Create(os.Args[4])
	check(err)
	w := bufio.NewWriterSize(f, 1<<20)
	e := json.NewEncoder(w)
	e.SetEscapeHTML(false)
	for id := 1; id <= n; id++ {
		if mode == "iso" {
			check(e.Encode(isoCase(id)))
		} else {
			c := timeCase(id)
			check(e.Encode(c))
			// an execution that never came back keeps a processor busy for good: what follows would measure that, not
			// the interpreter; the verdict (never-returned) is in the case just written
			hung := false
			for _, x := range c["execs"].(T) {
				if x.(O)["hung"] == true {
					hung = true
				}
			}
			if hung {
				break
			}
		}
	}
	w.Flush()
	f.Close()
}

func check(err error) {
	if err != nil {
		fmt.Fprintln(os.Stderr, "interpdrv:", err)
		os.Exit(2)
	}
}
