// graphdrv builds real specs from abstract graphs, calls tools.Analyze, tools.Dot and
// tools.Mermaid under a panic trap, parses the renderings back with a small strict
// parser of the subset of Graphviz / Mermaid syntax the tools emit, and records
// everything for the TLC judge (spec/Trace_Graph.tla, C20).
//
//	graphdrv univ <exported.ndjson> <out.ndjson>
//	graphdrv gen <n> <seed> <out.ndjson>
package main

import (
	"bufio"
	"bytes"
	"context"
	"encoding/json"
	"fmt"
	"io"
	"log"
	"math/rand"
	"os"
	"sort"
	"regexp"
	"strconv"
	"strings"

	"verifharness/enc"

	"github.com/Comcast/sheens/core"
	_ "github.com/Comcast/sheens/interpreters/ecmascript"
	"github.com/Comcast/sheens/match"
	"github.com/Comcast/sheens/tools"
)

type T = enc.T
type O = enc.O

type aBranch struct {
	Target  []interface{} `json:"target"`
	Guard   string        `json:"guard"`
	Ginterp string        `json:"ginterp"`
	Pattern interface{}   `json:"-"`
}
type aNode struct {
	Action   string    `json:"action"`
	Interp   string    `json:"interp"`
	Nobr     bool      `json:"nobr"`
	Branches []aBranch `json:"branches"`
}

func targetText(t []interface{}) string {
	switch t[0] {
	case "lit":
		return t[1].(string)
	case "ref":
		return t[2].(string)
	}
	return ""
}

func native(ctx context.Context, bs match.Bindings, props core.StepProps) (*core.Execution, error) {
	return core.NewExecution(bs), nil
}

func build(g map[string]*aNode) *core.Spec {
	s := &core.Spec{Name: "g", Nodes: map[string]*core.Node{}}
	for name, an := range g {
		n := &core.Node{}
		switch an.Action {
		case "native":
			n.Action = &core.FuncAction{F: native}
		case "source":
			n.ActionSource = &core.ActionSource{Interpreter: an.Interp, Source: "return _.bindings; // a<b>c"}
		}
		if !an.Nobr {
			n.Branches = &core.Branches{Type: "bindings"}
			for _, ab := range an.Branches {
				b := &core.Branch{Target: targetText(ab.Target), Pattern: ab.Pattern}
				switch ab.Guard {
				case "native":
					b.Guard = &core.FuncAction{F: native}
				case "source":
					b.GuardSource = &core.ActionSource{Interpreter: ab.Ginterp, Source: "return _.bindings;"}
				}
				n.Branches.Branches = append(n.Branches.Branches, b)
			}
		}
		s.Nodes[name] = n
	}
	return s
}

type wc struct{ bytes.Buffer }

func (w *wc) Close() error { return nil }

func trap(f func() error) (outcome string, errtext string) {
	defer func() {
		if r := recover(); r != nil {
			outcome, errtext = "panicked", fmt.Sprint(r)
		}
	}()
	if err := f(); err != nil {
		return "error", err.Error()
	}
	return "returned", ""
}

// a Graphviz ID as Dot writes it: always quoted, with the escapes \" \\ and \n
const dotID = `"((?:[^"\\]|\\.)*)"`

var dotNode = regexp.MustCompile(`^  ` + dotID + ` \[shape="[^"]*", style="[^"]*", color="[^"]*", fillcolor="[^"]*", label=<.*> \]$`)
var dotEdge = regexp.MustCompile(`^  ` + dotID + ` -> ` + dotID + ` \[ color="[^"]*" label = <.*> \]$`)

func dotUnquote(s string) string {
	var b strings.Builder
	for i := 0; i < len(s); i++ {
		if s[i] == '\\' && i+1 < len(s) {
			i++
			switch s[i] {
			case 'n':
				b.WriteByte('\n')
			default:
				b.WriteByte(s[i])
			}
			continue
		}
		b.WriteByte(s[i])
	}
	return b.String()
}

func parseDot(s string) O {
	nodes, edges, unparsed := T{}, T{}, T{}
	lines := strings.Split(s, "\n")
	hdr := map[string]bool{"digraph G {": true, "  graph [ordering=out,rankdir=TB,nodesep=0.3,ranksep=0.6]": true,
		`  node [shape="record" style="rounded,filled"]`: true, `  edge [fontsize = "12"]`: true, "}": true, "": true}
	for _, l := range lines {
		if hdr[l] {
			continue
		}
		if m := dotEdge.FindStringSubmatch(l); m != nil {
			edges = append(edges, T{dotUnquote(m[1]), dotUnquote(m[2])})
		} else if m := dotNode.FindStringSubmatch(l); m != nil {
			nodes = append(nodes, dotUnquote(m[1]))
		} else {
			if len(l) > 120 {
				l = l[:120]
			}
			unparsed = append(unparsed, l)
		}
	}
	return O{"nodes": nodes, "edges": edges, "unparsed": unparsed}
}

var mmNode = regexp.MustCompile(`(?m)^  (n\d+)(?:\("(.*)"\)|\["(.*)"\])$`)
var mmEdge = regexp.MustCompile(`(?ms)^  (n\d+) (?:-- "<pre>.*?</pre>")? ?--> (n\d+)$`)
var mmStyle = regexp.MustCompile(`(?m)^  style n\d+ fill:\S+$`)

func parseMermaid(s string) O {
	ids := map[string]string{}
	nodes, edges, unparsed := T{}, T{}, T{}
	rest := s
	for _, m := range mmNode.FindAllStringSubmatch(s, -1) {
		name := m[2]
		if m[3] != "" || strings.Contains(m[0], "[") {
			name = m[3]
		}
		// quoted Mermaid text: entity codes for the double quote and for '#'
		name = strings.Replace(strings.Replace(name, "#quot;", `"`, -1), "#35;", "#", -1)
		ids[m[1]] = name
		nodes = append(nodes, name)
	}
	for _, m := range mmEdge.FindAllStringSubmatch(s, -1) {
		a, okA := ids[m[1]]
		b, okB := ids[m[2]]
		if !okA || !okB {
			unparsed = append(unparsed, "edge with unknown id")
			continue
		}
		edges = append(edges, T{a, b})
	}
	rest = mmEdge.ReplaceAllString(rest, "")
	rest = mmNode.ReplaceAllString(rest, "")
	rest = mmStyle.ReplaceAllString(rest, "")
	rest = strings.TrimSpace(strings.Replace(rest, "graph TB", "", 1))
	if rest != "" {
		if len(rest) > 200 {
			rest = rest[:200]
		}
		unparsed = append(unparsed, rest)
	}
	return O{"nodes": nodes, "edges": edges, "unparsed": unparsed}
}

func strs(xs []string) T {
	a := T{}
	for _, x := range xs {
		a = append(a, x)
	}
	return a
}

// edited: the records of specs that were analysed and rendered, then edited in place, then analysed and rendered again
var edited []O

func one(id int, kind string, g map[string]*aNode, plain bool) O {
	spec := build(g)
	rec := observe(id, kind, g, plain, spec, true)
	if rec != nil && kind == "gen" && id%2 == 0 {
		// the same spec OBJECT with one more branch (to a node that does not exist) on its first node that has branching:
		// what the tools say now is about the spec as it is now
		names := []string{}
		for name, an := range g {
			if !an.Nobr && spec.Nodes[name] != nil && spec.Nodes[name].Branches != nil {
				names = append(names, name)
			}
		}
		sort.Strings(names)
		if len(names) > 0 {
			g2 := map[string]*aNode{}
			for name, an := range g {
				c := *an
				c.Branches = append([]aBranch{}, an.Branches...)
				g2[name] = &c
			}
			g2[names[0]].Branches = append(g2[names[0]].Branches, aBranch{Target: []interface{}{"lit", "zz"}, Guard: "none"})
			spec.Nodes[names[0]].Branches.Branches = append(spec.Nodes[names[0]].Branches.Branches, &core.Branch{Target: "zz"})
			if rec2 := observe(id+1000000, kind, g2, plain, spec, false); rec2 != nil {
				edited = append(edited, rec2)
			}
		}
	}
	return rec
}

func observe(id int, kind string, g map[string]*aNode, plain bool, spec *core.Spec, first bool) O {
	rec := O{"id": id, "kind": kind, "plainNames": plain}
	// Every third generated graph has a node without content (`hollow:` in YAML, a nil *Node), which Compile replaces by an
	// empty node; the tools are first run on the spec as loaded, uncompiled (spectool does that): they must not crash.
	rawOutcomes := T{}
	if first && kind == "gen" && id%3 == 0 {
		if _, have := g["hollow"]; !have {
			g["hollow"] = &aNode{Action: "none", Interp: "", Nobr: true, Branches: []aBranch{}}
			spec.Nodes["hollow"] = nil
		}
		var dw0, mw0 wc
		for _, f := range []func() error{
			func() error { _, err := tools.Analyze(spec); return err },
			func() error { return tools.Dot(spec, &dw0, "", "") },
			func() error { return tools.Mermaid(spec, &mw0, nil, "", "") },
		} {
			oc, _ := trap(f)
			rawOutcomes = append(rawOutcomes, oc)
		}
	}
	rec["rawOutcomes"] = rawOutcomes
	if first {
		if err := spec.Compile(context.Background(), nil, true); err != nil {
			rec["compile"] = err.Error()
			return nil
		}
	}
	// the graph as compiled: Compile adds an empty error node
	if _, have := g["error"]; !have {
		g["error"] = &aNode{Action: "none", Interp: "", Nobr: true, Branches: []aBranch{}}
	}
	for _, n := range g {
		if n.Branches == nil {
			n.Branches = []aBranch{}
		}
	}
	rec["g"] = g
	raw, _ := json.Marshal(g)
	rec["raw"] = string(raw)
	var an *tools.SpecAnalysis
	oc, et := trap(func() error { var err error; an, err = tools.Analyze(spec); return err })
	rec["analysisOutcome"], rec["analysisErr"] = oc, et
	rec["analysis"] = O{"nodeCount": 0, "branches": 0, "actions": 0, "guards": 0, "terminal": T{}, "orphans": T{}, "emptyTargets": T{}, "missing": T{}, "targetVars": T{}, "interpreters": T{}}
	if oc == "returned" && an != nil {
		rec["analysis"] = O{"nodeCount": an.NodeCount, "branches": an.Branches, "actions": an.Actions, "guards": an.Guards,
			"terminal": strs(an.TerminalNodes), "orphans": strs(an.Orphans), "emptyTargets": strs(an.EmptyTargets),
			"missing": strs(an.MissingTargets), "targetVars": strs(an.BranchTargetVariables), "interpreters": strs(an.Interpreters)}
	}
	var dw wc
	oc, et = trap(func() error { return tools.Dot(spec, &dw, "", "") })
	rec["dotOutcome"], rec["dotErr"] = oc, et
	rec["dot"] = parseDot(dw.String())
	var mw wc
	oc, et = trap(func() error { return tools.Mermaid(spec, &mw, nil, "", "") })
	rec["mermaidOutcome"], rec["mermaidErr"] = oc, et
	rec["mermaid"] = parseMermaid(mw.String())
	return rec
}

var rng *rand.Rand

func genGraph() (map[string]*aNode, bool) {
	plain := rng.Intn(4) > 0
	names := []string{"start", "a", "b", "c", "d", "e"}
	if !plain {
		names = [][]string{{"start", "a b", `q"uote`, "x<y", "p&q", "n>m", "tab\tname", "{curly}"},
			{"test-1", "two words", "node", "ne@xt", `a")-->n1("b`, "heat-up", "heat_up", `back\slash`, "hash#35;tag"},
			{"start", "edge", "graph", "digraph", "strict", "subgraph", "1st", "-->", "end"}}[rng.Intn(3)]
	}
	nn := 1 + rng.Intn(len(names))
	use := names[:nn]
	if rng.Intn(3) == 0 {
		use = names[1:nn]
		if len(use) == 0 {
			use = names[:1]
		}
	}
	g := map[string]*aNode{}
	pats := []interface{}{nil, map[string]interface{}{"n": "?<n"}, map[string]interface{}{"a b": "x<y&z>"}, "bare", []interface{}{1.0, "?x"},
		map[string]interface{}{"long": map[string]interface{}{"nested": []interface{}{1.0, 2.0, 3.0}, "more": "text to make the pattern longer than forty characters"}}}
	for _, name := range use {
		n := &aNode{Action: []string{"none", "native", "source"}[rng.Intn(3)], Interp: []string{"ecmascript", "", "ecmascript-5.1"}[rng.Intn(3)], Branches: []aBranch{}}
		if rng.Intn(6) == 0 {
			n.Nobr = true
		} else {
			for i, nb := 0, rng.Intn(4); i < nb; i++ {
				var t []interface{}
				switch r := rng.Intn(10); {
				case r < 6:
					t = []interface{}{"lit", use[rng.Intn(len(use))]}
				case r < 8:
					t = []interface{}{"lit", []string{"zz", "missing", "start"}[rng.Intn(3)]}
				case r < 9:
					t = []interface{}{"ref", "v", "@v"}
				default:
					t = []interface{}{"empty"}
				}
				n.Branches = append(n.Branches, aBranch{Target: t, Guard: []string{"none", "none", "source", "native"}[rng.Intn(4)],
					Ginterp: []string{"ecmascript", "", "ecmascript-5.1"}[rng.Intn(3)], Pattern: pats[rng.Intn(len(pats))]})
			}
		}
		g[name] = n
	}
	return g, plain
}

func main() {
	log.SetOutput(io.Discard)
	core.DefaultInterpreters["ecmascript-5.1"] = core.DefaultInterpreters["ecmascript"]
	core.DefaultInterpreters[""] = core.DefaultInterpreters["ecmascript"]
	switch os.Args[1] {
	case "univ":
		in, err := os.Open(os.Args[2])
		check(err)
		out := newOut(os.Args[3])
		defer out.close()
		sc := bufio.NewScanner(in)
		sc.Buffer(make([]byte, 1<<20), 1<<26)
		id := 0
		for sc.Scan() {
			var c struct {
				G map[string]*aNode `json:"g"`
			}
			check(json.Unmarshal(sc.Bytes(), &c))
			id++
			out.write(one(id, "univ", c.G, true))
		}
	case "gen":
		n, _ := strconv.Atoi(os.Args[2])
		seed, _ := strconv.Atoi(os.Args[3])
		rng = rand.New(rand.NewSource(int64(seed)))
		out := newOut(os.Args[4])
		defer out.close()
		for id := 1; id <= n; id++ {
			g, plain := genGraph()
			out.write(one(id, "gen", g, plain))
			for _, r := range edited {
				out.write(r)
			}
			edited = nil
		}
	case "replay":
		js, err := os.ReadFile(os.Args[2])
		check(err)
		var r struct {
			Case struct {
				Raw        string
				PlainNames bool
			}
		}
		check(json.Unmarshal(js, &r))
		var g map[string]*aNode
		check(json.Unmarshal([]byte(r.Case.Raw), &g))
		delete(g, "error")
		out := newOut(os.Args[3])
		defer out.close()
		out.write(one(1, "replay", g, r.Case.PlainNames))
	}
}

type outW struct {
	f *os.File
	w *bufio.Writer
	e *json.Encoder
}

func newOut(path string) *outW {
	f, err := os.Create(path)
	check(err)
	w := bufio.NewWriterSize(f, 1<<20)
	e := json.NewEncoder(w)
	e.SetEscapeHTML(false)
	return &outW{f, w, e}
}
func (o *outW) write(c O) {
	if c != nil {
		check(o.e.Encode(c))
	}
}
func (o *outW) close() { o.w.Flush(); o.f.Close() }
func check(err error) {
	if err != nil {
		fmt.Fprintln(os.Stderr, "graphdrv:", err)
		os.Exit(2)
	}
}
