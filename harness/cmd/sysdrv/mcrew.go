package main

// mcrew side of the system model (spec/McrewSystem.tla).  The driver that runs INSIDE cmd/mcrew
// (harness/mcrew/system_driver_test.go, compiled in by `go test -overlay`) cannot import this module, so:
//
//	sysdrv mcrew-config <dir>        writes <dir>/specs/*.yaml (what Service.GetSpec reads),
//	                                 <dir>/mcrewconfig.ndjson (the model's configuration, tagged encoding) and
//	                                 <dir>/mcrewinputs.json (the same inputs as plain JSON, for the overlay driver)
//	sysdrv mcrew-encode <raw> <out>  turns the overlay driver's plain-JSON observations into the tagged encoding

import (
	"bufio"
	"encoding/json"
	"os"
	"path/filepath"

	"verifharness/enc"
	"verifharness/mach"

	"github.com/Comcast/sheens/match"
	jyaml "github.com/jsccast/yaml"
)

func mdoorBs(mid string) M {
	tid := "relock-" + mid
	relock := obj("to", mid, "relock", true)
	return obj("tid", tid, "relock", relock,
		"mk", obj("to", "timers", "makeTimer", obj("in", "1ms", "id", tid, "message", relock)),
		"cn", obj("to", "timers", "deleteTimer", tid))
}

// fan: emits one coin for each of two doors in a single step - two goroutines then race for the crew lock
func fan() *mach.ASpec {
	return &mach.ASpec{Nodes: map[string]*mach.ANode{
		"start": {BType: "message", Branches: []mach.ABranch{{HasPat: true, Pat: obj("fan", true), Target: "go"}}},
		"go": {Act: []mach.Op{{Name: "emit", V: obj("to", "d1", "input", "coin")}, {Name: "emit", V: obj("to", "d2", "input", "coin")}},
			BType: "bindings", Branches: []mach.ABranch{{Target: "start"}}},
	}}
}

var mspecs = map[string]*mach.ASpec{"door": door(), "turnstile": turnstile(), "fan": fan()}

var minitial = map[string]minit{"d1": {"door", "locked", mdoorBs("d1")}, "t1": {"turnstile", "locked", M{}}, "f1": {"fan", "start", M{}}}

func minputs() []input {
	return []input{
		{k: "msg", m: obj("to", "d1", "input", "coin")},
		{k: "msg", m: obj("to", "d1", "input", "push")},
		{k: "add", mid: "d2", spec: "door", node: "locked", bs: mdoorBs("d2")},
		{k: "rem", mid: "d2"},
		{k: "msg", m: obj("to", "d2", "input", "push")},
		{k: "msg", m: obj("to", "f1", "fan", true)},
		{k: "msg", m: obj("input", "coin")},
		{k: "fault"},
		{k: "msg", m: obj("to", "timers", "deleteTimer", "relock-d1"), direct: true},
		{k: "msg", m: obj("to", "timers", "makeTimer", obj("in", "1ms", "id", "x", "message", obj("to", "d1", "input", "coin"))), direct: true},
		{k: "msg", m: obj("to", "timers", "makeTimer", obj("in", "soon", "id", "y", "message", float64(1))), direct: true},
		{k: "rem", mid: "d1"},
	}
}

func mcrewConfig(dir string) {
	check(os.MkdirAll(filepath.Join(dir, "specs"), 0755))
	sp := O{}
	for n, a := range mspecs {
		s := mach.Build(a)
		s.Name = n
		ys, err := jyaml.Marshal(s)
		check(err)
		check(os.WriteFile(filepath.Join(dir, "specs", n+".yaml"), ys, 0644))
		sp[n] = mach.EncSpec(a)
	}
	in := O{}
	rawInit := M{}
	for mid, m := range minitial {
		in[mid] = O{"spec": m.spec, "st": stEnc(m.node, m.bs)}
		rawInit[mid] = M{"spec": m.spec, "node": m.node, "bs": m.bs}
	}
	ins := T{}
	rawIns := []interface{}{}
	for _, x := range minputs() {
		o := O{"k": x.k, "direct": x.direct}
		r := M{"k": x.k}
		switch x.k {
		case "msg":
			o["m"] = enc.V(x.m)
			r["m"] = x.m
		case "add":
			o["mid"], o["spec"], o["st"] = x.mid, x.spec, stEnc(x.node, x.bs)
			r["mid"], r["spec"], r["node"], r["bs"] = x.mid, x.spec, x.node, x.bs
		case "rem":
			o["mid"] = x.mid
			r["mid"] = x.mid
		}
		ins = append(ins, o)
		rawIns = append(rawIns, r)
	}
	f, err := os.Create(filepath.Join(dir, "mcrewconfig.ndjson"))
	check(err)
	e := json.NewEncoder(f)
	e.SetEscapeHTML(false)
	// every message that can be waiting for the lock: inputs, what the machines emit, what the timers carry
	table := []interface{}{}
	seen := map[string]bool{}
	add := func(m interface{}) {
		if c := enc.Canon(m); !seen[c] {
			seen[c] = true
			table = append(table, m)
		}
	}
	for _, x := range minputs() {
		if x.k == "msg" {
			add(x.m)
			if mt, is := x.m["makeTimer"].(M); is && mt["message"] != nil {
				add(mt["message"])
			}
		}
	}
	for _, mid := range []string{"d1", "d2"} {
		bs := mdoorBs(mid)
		add(bs["mk"])
		add(bs["cn"])
		add(bs["relock"])
	}
	for _, o := range fan().Nodes["go"].Act {
		add(o.V)
	}
	rawTable := []interface{}{}
	encTable := T{}
	for _, m := range table {
		rawTable = append(rawTable, m)
		encTable = append(encTable, enc.V(m))
	}
	check(e.Encode(O{"specs": sp, "init": in, "inputs": ins, "validIn": T{"1ms"}, "msgs": encTable}))
	f.Close()
	js, err := json.Marshal(M{"init": rawInit, "inputs": rawIns, "msgs": rawTable})
	check(err)
	check(os.WriteFile(filepath.Join(dir, "mcrewinputs.json"), js, 0644))
}

type rawMachine struct {
	Spec string                 `json:"spec"`
	Node string                 `json:"node"`
	Bs   map[string]interface{} `json:"bs"`
}

func encMachines(ms map[string]rawMachine) O {
	out := O{}
	for mid, m := range ms {
		out[mid] = O{"spec": m.Spec, "st": T{"st", m.Node, enc.Bs(match.Bindings(m.Bs))}}
	}
	return out
}

func mcrewEncode(in, out string) {
	f, err := os.Open(in)
	check(err)
	defer f.Close()
	g, err := os.Create(out)
	check(err)
	w := bufio.NewWriterSize(g, 1<<20)
	e := json.NewEncoder(w)
	e.SetEscapeHTML(false)
	sc := bufio.NewScanner(f)
	sc.Buffer(make([]byte, 1<<20), 1<<28)
	for sc.Scan() {
		var c struct {
			Id      int    `json:"id"`
			Outcome string `json:"outcome"`
			Raw     string `json:"raw"`
			Steps   []struct {
				Act      []interface{}          `json:"act"`
				Real     string                 `json:"real"`
				Res      string                 `json:"res"`
				Mem      map[string]rawMachine  `json:"mem"`
				Store    map[string]rawMachine  `json:"store"`
				StoreErr string                 `json:"storeErr"`
				Timers   map[string]interface{} `json:"timers"`
				Flight   []interface{}          `json:"flight"`
				Emitted  []interface{}          `json:"emitted"`
				Errs     int                    `json:"errs"`
			} `json:"steps"`
		}
		check(json.Unmarshal(sc.Bytes(), &c))
		steps := T{}
		for _, s := range c.Steps {
			tm := O{}
			for id, m := range s.Timers {
				tm[id] = enc.V(m)
			}
			steps = append(steps, O{"act": s.Act, "real": s.Real, "res": s.Res, "mem": encMachines(s.Mem), "store": encMachines(s.Store),
				"storeErr": s.StoreErr, "timers": tm, "flight": mach.EncMsgs(orEmptyI(s.Flight)), "emitted": mach.EncMsgs(orEmptyI(s.Emitted)), "errs": s.Errs})
		}
		check(e.Encode(O{"id": c.Id, "kind": "mcrew-system", "outcome": c.Outcome, "raw": c.Raw, "steps": steps}))
	}
	w.Flush()
	g.Close()
}

func orEmptyI(x []interface{}) []interface{} {
	if x == nil {
		return []interface{}{}
	}
	return x
}
