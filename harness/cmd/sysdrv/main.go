// sysdrv binds spec/SioSystem.tla to the real single-loop crew (sio.Crew with its captain and timers
// machines).  It writes the scenario configuration both sides use, replays behaviours (sequences
// of Submit / Fire / Deliver / Restart) on a real crew - behaviours TLC generated from the model, or
// random ones chosen from what the real crew enables - and records after every action the
// projection of the real state (machines, timers machine, captain, the host's store, the input
// queue, reported emissions) for spec/Trace_System.tla.
//
// Timer goroutines are held at the verif hook "timer-wait" (sio/timers.go) so that a timer fires
// exactly when the behaviour says so; all timers are requested with "in":"1ms".
//
//	sysdrv config <sysconfig.ndjson>
//	sysdrv replay <behaviours.ndjson> <out.ndjson>
//	sysdrv random <n> <seed> <maxlen> <out.ndjson>
package main

import (
	"bufio"
	"context"
	"encoding/json"
	"fmt"
	"io"
	"log"
	"math/rand"
	"os"
	"path/filepath"
	"runtime"
	"sort"
	"strconv"
	"sync"
	"time"

	"verifharness/enc"
	"verifharness/hook"
	"verifharness/mach"

	"github.com/Comcast/sheens/core"
	"github.com/Comcast/sheens/crew"
	"github.com/Comcast/sheens/match"
	"github.com/Comcast/sheens/sio"
)

type O = enc.O
type T = enc.T
type M = map[string]interface{}

func obj(kv ...interface{}) M {
	m := M{}
	for i := 0; i < len(kv); i += 2 {
		m[kv[i].(string)] = kv[i+1]
	}
	return m
}

// ---------------------------------------------------------------- the scenario

func door() *mach.ASpec {
	return &mach.ASpec{Nodes: map[string]*mach.ANode{
		"locked":   {BType: "message", Branches: []mach.ABranch{{HasPat: true, Pat: obj("input", "coin"), Target: "opening"}}},
		"opening":  {Act: []mach.Op{{Name: "emitb", K: "mk"}}, BType: "bindings", Branches: []mach.ABranch{{Target: "unlocked"}}},
		"unlocked": {BType: "message", Branches: []mach.ABranch{{HasPat: true, Pat: obj("input", "push"), Target: "closing"}, {HasPat: true, Pat: obj("relock", true), Target: "locked"}}},
		"closing":  {Act: []mach.Op{{Name: "emitb", K: "cn"}}, BType: "bindings", Branches: []mach.ABranch{{Target: "locked"}}},
	}}
}

func turnstile() *mach.ASpec {
	brs := []mach.ABranch{{HasPat: true, Pat: obj("input", "coin"), Target: "unlocked"}, {HasPat: true, Pat: obj("input", "push"), Target: "locked"}}
	return &mach.ASpec{Nodes: map[string]*mach.ANode{"locked": {BType: "message", Branches: brs}, "unlocked": {BType: "message", Branches: brs}}}
}

// blinker: every tick re-creates the timer that sends the next tick - the timer is re-created under its own id
// by the handler of its own firing message
func blinker() *mach.ASpec {
	return &mach.ASpec{Nodes: map[string]*mach.ANode{
		"start": {BType: "message", Branches: []mach.ABranch{{HasPat: true, Pat: obj("tick", true), Target: "arm"}, {HasPat: true, Pat: obj("stop", true), Target: "halt"}}},
		"arm":   {Act: []mach.Op{{Name: "emitb", K: "mk"}}, BType: "bindings", Branches: []mach.ABranch{{Target: "start"}}},
		"halt":  {Act: []mach.Op{{Name: "emitb", K: "cn"}}, BType: "bindings", Branches: []mach.ABranch{{Target: "start"}}},
	}}
}

func blinkerBs(mid string) M {
	tid := "blink-" + mid
	return obj("mk", obj("to", "timers", "makeTimer", obj("in", timerIn, "id", tid, "msg", obj("to", mid, "tick", true))),
		"cn", obj("to", "timers", "cancelTimer", tid))
}

var specs = map[string]*mach.ASpec{"door": door(), "turnstile": turnstile(), "blinker": blinker()}

// the delay of every timer of the scenario ("1ms" where timer goroutines are gated; longer in stdio mode)
var timerIn = func() string {
	if v := os.Getenv("SYSDRV_IN"); v != "" {
		return v
	}
	return "1ms"
}()

func doorBs(mid string) M {
	tid := "relock-" + mid
	relock := obj("to", mid, "relock", true)
	return obj("tid", tid, "relock", relock,
		"mk", obj("to", "timers", "makeTimer", obj("in", timerIn, "id", tid, "msg", relock)),
		"cn", obj("to", "timers", "cancelTimer", tid))
}

type minit struct {
	spec, node string
	bs         M
}

var initial = map[string]minit{"d1": {"door", "locked", doorBs("d1")}, "t1": {"turnstile", "locked", M{}}, "b1": {"blinker", "start", blinkerBs("b1")}}

type input struct {
	k      string // msg | add | del
	m      M      // the message (for add/del: the model's placeholder)
	direct bool   // addresses a service machine directly
	mid    string
	spec   string
	node   string
	bs     M
}

func inputs() []input {
	return []input{
		{k: "msg", m: obj("to", "d1", "input", "coin")},
		{k: "msg", m: obj("to", "d1", "input", "push")},
		{k: "add", m: obj("to", "captain", "verifOp", "add-d2"), mid: "d2", spec: "door", node: "locked", bs: doorBs("d2")},
		{k: "del", m: obj("to", "captain", "verifOp", "del-d2"), mid: "d2"},
		{k: "msg", m: obj("to", "d2", "input", "coin")},
		{k: "msg", m: obj("to", "d2", "input", "push")},
		{k: "msg", m: obj("input", "coin")},
		{k: "msg", m: obj("to", "timers", "cancelTimer", "relock-d1"), direct: true},
		{k: "msg", m: obj("to", "timers", "makeTimer", obj("in", timerIn, "id", "x", "msg", obj("to", "d1", "input", "coin"))), direct: true},
		{k: "msg", m: obj("to", "timers", "makeTimer", obj("in", "soon", "id", "y", "msg", float64(1))), direct: true},
		{k: "msg", m: obj("to", "captain", "hello", float64(1)), direct: true},
		{k: "msg", m: obj("to", T{"t1", "d1"}, "input", "coin")},
		{k: "del", m: obj("to", "captain", "verifOp", "del-d1"), mid: "d1"},
		{k: "msg", m: obj("to", "*", "input", "push")},
		{k: "msg", m: obj("to", "b1", "tick", true)},
		{k: "msg", m: obj("to", "b1", "stop", true)},
		{k: "msg", m: obj("to", T{"timers", "d1"}, "cancelTimer", "blink-b1", "input", "coin"), direct: true},
	}
}

func buildSpec(name string) *core.Spec {
	s := mach.Build(specs[name])
	s.Name = name
	return s
}

func generic(x interface{}) interface{} {
	js, err := json.Marshal(x)
	check(err)
	var y interface{}
	check(json.Unmarshal(js, &y))
	return y
}

// the message a host really sends for an input
func realMsg(in input) interface{} {
	switch in.k {
	case "add":
		return obj("to", "captain", "update", obj(in.mid, obj("spec", obj("inline", generic(buildSpec(in.spec))), "state", obj("node", in.node, "bs", enc.DeepCopy(in.bs)))))
	case "del":
		return obj("to", "captain", "delete", T{in.mid})
	}
	return enc.DeepCopy(in.m)
}

func stEnc(node string, bs M) interface{} {
	return T{"st", node, enc.Bs(match.Bindings(bs))}
}

func config() O {
	sp := O{}
	for n, a := range specs {
		sp[n] = mach.EncSpec(a)
	}
	in := O{}
	for mid, m := range initial {
		in[mid] = O{"spec": m.spec, "st": stEnc(m.node, m.bs)}
	}
	ins := T{}
	for _, x := range inputs() {
		o := O{"k": x.k, "m": enc.V(x.m), "direct": x.direct}
		if x.k == "add" {
			o["mid"], o["spec"], o["st"] = x.mid, x.spec, stEnc(x.node, x.bs)
		}
		if x.k == "del" {
			o["mid"] = x.mid
		}
		ins = append(ins, o)
	}
	// the service machines' patterns come from the real specifications
	c := &sio.Crew{}
	ts := c.NewTimersSpec()
	brs := ts.Nodes["start"].Branches.Branches
	return O{"specs": sp, "init": in, "inputs": ins, "validIn": T{timerIn},
		"pats":    O{"make": enc.P(brs[0].Pattern), "cancel": enc.P(brs[1].Pattern)},
		"targets": T{brs[0].Target, brs[1].Target}}
}

// ---------------------------------------------------------------- the harness

type coup struct {
	in  chan interface{}
	out chan *sio.Result
}

func (c *coup) Start(context.Context) error { return nil }
func (c *coup) IO(context.Context) (chan interface{}, chan *sio.Result, error) {
	return c.in, c.out, nil
}
func (c *coup) Read(context.Context) (map[string]*crew.Machine, error) { return nil, nil }
func (c *coup) Stop(context.Context) error                             { return nil }

type gate struct {
	arrived chan struct{}
	release chan struct{}
	done    chan string
	once    sync.Once
	epoch   int // the boot this timer entry belongs to
}

func newGate() *gate {
	return &gate{arrived: make(chan struct{}), release: make(chan struct{}, 1), done: make(chan string, 8)}
}

type stored struct {
	State *core.State
	Src   *crew.SpecSource
}

type harness struct {
	sync.Mutex
	c      *sio.Crew
	cp     *coup
	ctx    context.Context
	cancel context.CancelFunc
	gates  map[*sio.TimerEntry]*gate
	byId   map[string]*sio.TimerEntry
	free   bool
	epoch  int
	shadow map[string]*stored
	inq    []interface{}
}

func (h *harness) hook(point string, args ...interface{}) {
	switch point {
	case "timer-added", "timer-wait", "timer-due", "timer-emitted", "timer-abandoned", "timer-cancel-seen":
	default:
		return
	}
	id := args[0].(string)
	te := args[1].(*sio.TimerEntry)
	h.Lock()
	g, have := h.gates[te]
	if !have {
		// first seen: created by the current crew (timer-added), or restored by it (timer-wait)
		g = newGate()
		g.epoch = h.epoch
		h.gates[te] = g
	}
	// the entry registered under an id: the one most recently ADDED; a restored entry is first seen at its gate
	if g.epoch == h.epoch && (point == "timer-added" || (point == "timer-wait" && !have)) {
		h.byId[id] = te
	}
	free := h.free || g.epoch != h.epoch
	h.Unlock()
	switch point {
	case "timer-wait":
		g.once.Do(func() { close(g.arrived) })
		if !free {
			<-g.release
		}
	case "timer-due", "timer-emitted", "timer-abandoned", "timer-cancel-seen":
		select {
		case g.done <- point:
		default:
		}
	}
}

func (h *harness) releaseAll() {
	h.Lock()
	h.free = true
	for _, g := range h.gates {
		select {
		case g.release <- struct{}{}:
		default:
		}
	}
	h.byId = map[string]*sio.TimerEntry{}
	gs := []*gate{}
	for _, g := range h.gates {
		if g.epoch == h.epoch {
			gs = append(gs, g)
		}
	}
	h.Unlock()
	// every goroutine of this boot passes its gate before the next boot begins
	for _, g := range gs {
		select {
		case <-g.arrived:
		case <-time.After(time.Second):
		}
	}
}

// boot starts a crew from the store (nil: from the initial configuration)
func (h *harness) boot(fromStore bool) {
	if h.cancel != nil {
		h.cancel()
		h.releaseAll()
		h.cancel = nil
	}
	h.Lock()
	h.free = false
	h.epoch++
	h.Unlock()
	h.inq = nil
	h.ctx, h.cancel = context.WithCancel(context.Background())
	h.cp = &coup{make(chan interface{}, 1024), make(chan *sio.Result, 1024)}
	c, err := sio.NewCrew(h.ctx, &sio.CrewConf{Id: "verif", Ctl: &core.Control{Limit: 100}}, h.cp)
	check(err)
	h.c = c
	restored := 0
	if !fromStore {
		mids := []string{}
		for mid := range initial {
			mids = append(mids, mid)
		}
		sort.Strings(mids)
		for _, mid := range mids {
			m := initial[mid]
			check(c.SetMachine(h.ctx, mid, &crew.SpecSource{Inline: buildSpec(m.spec)}, &core.State{NodeName: m.node, Bs: match.Bindings(enc.DeepCopy(m.bs).(map[string]interface{}))}))
		}
	} else {
		mids := []string{}
		for mid := range h.shadow {
			mids = append(mids, mid)
		}
		sort.Strings(mids)
		for _, mid := range mids {
			s := h.shadow[mid]
			var st *core.State
			if s.State != nil {
				st = s.State.Copy()
				st.Bs = match.Bindings(enc.DeepCopy(map[string]interface{}(st.Bs)).(map[string]interface{}))
			}
			if mid == sio.TimersMachine && st != nil {
				if mm, is := st.Bs["timers"].(map[string]interface{}); is {
					restored = len(mm)
				}
			}
			check(c.SetMachine(h.ctx, mid, s.Src, st))
		}
	}
	// every restored timer has a goroutine that must have reached its gate before we go on
	deadline := time.Now().Add(2 * time.Second)
	for {
		h.Lock()
		n := 0
		for _, g := range h.gates {
			if g.epoch != h.epoch {
				continue
			}
			select {
			case <-g.arrived:
				n++
			default:
			}
		}
		h.Unlock()
		if n >= restored || time.Now().After(deadline) {
			break
		}
		time.Sleep(200 * time.Microsecond)
	}
	// The initial crew's first report seeds the store.  A crew booted FROM the store is not asked: a host does not ask
	// either, it gets the first report with the first message it has processed (everything the boot touched is in it).
	if !fromStore {
		ch, err := c.GetChanged(h.ctx)
		check(err)
		h.fold(ch)
	}
}

// fold applies reported changes to the store, through JSON as sio's own hosts do
func (h *harness) fold(changed map[string]*sio.Changed) {
	for mid, m := range changed {
		if m.Deleted {
			delete(h.shadow, mid)
			continue
		}
		n, have := h.shadow[mid]
		if !have {
			n = &stored{}
			h.shadow[mid] = n
		}
		if m.State != nil {
			js, err := json.Marshal(m.State)
			check(err)
			var st core.State
			check(json.Unmarshal(js, &st))
			n.State = &st
		}
		if m.SpecSrc != nil {
			js, err := json.Marshal(m.SpecSrc)
			check(err)
			var src crew.SpecSource
			check(json.Unmarshal(js, &src))
			n.Src = &src
		}
	}
}

func (h *harness) process(msg interface{}) (T, string) {
	var r *sio.Result
	var err error
	outcome := "returned"
	func() {
		defer func() {
			if x := recover(); x != nil {
				outcome = fmt.Sprintf("panicked: %v", x)
			}
		}()
		r, err = h.c.ProcessMsg(h.ctx, msg)
	}()
	if outcome != "returned" {
		return nil, outcome
	}
	if err != nil || r == nil {
		return nil, "failed"
	}
	h.fold(r.Changed)
	batches := T{}
	for _, b := range r.Emitted {
		batches = append(batches, mach.EncMsgs(generic(b).([]interface{})))
	}
	return batches, outcome
}

func (h *harness) pending() []string {
	ids := []string{}
	if m := h.c.Machines[sio.TimersMachine]; m != nil && m.State != nil {
		if mm, is := generic(m.State.Bs["timers"]).(map[string]interface{}); is {
			for id := range mm {
				ids = append(ids, id)
			}
		}
	}
	sort.Strings(ids)
	return ids
}

// fire lets the timer registered under id run to completion; reports what its goroutine did
func (h *harness) fire(id string) string {
	var g *gate
	deadline := time.Now().Add(2 * time.Second)
	for g == nil && time.Now().Before(deadline) {
		h.Lock()
		if te, have := h.byId[id]; have {
			g = h.gates[te]
		}
		h.Unlock()
		if g == nil {
			time.Sleep(200 * time.Microsecond)
		}
	}
	if g == nil {
		return "no-such-timer"
	}
	select {
	case <-g.arrived:
	case <-time.After(2 * time.Second):
		return "goroutine-never-waited"
	}
	select {
	case g.release <- struct{}{}:
	default:
	}
	for {
		select {
		case p := <-g.done:
			switch p {
			case "timer-emitted":
				select {
				case m := <-h.cp.in:
					if f, is := m.(func(*sio.Crew) interface{}); is {
						m = f(h.c)
					}
					h.inq = append(h.inq, m)
					return "fired"
				case <-time.After(time.Second):
					return "emitted-nothing"
				}
			case "timer-abandoned":
				return "abandoned"
			case "timer-cancel-seen":
				return "cancelled"
			}
		case <-time.After(2 * time.Second):
			if os.Getenv("SYSDRV_DEBUG") != "" {
				buf := make([]byte, 1<<20)
				os.Stderr.Write(buf[:runtime.Stack(buf, true)])
			}
			return "goroutine-stuck"
		}
	}
}

func specName(m *crew.Machine) string {
	if m.Specter != nil {
		if s := m.Specter.Spec(); s != nil {
			return s.Name
		}
	}
	return ""
}

func withoutTimers(bs match.Bindings) match.Bindings {
	out := match.Bindings{}
	for k, v := range bs {
		if k != "timers" {
			out[k] = v
		}
	}
	return out
}

// gbs: the bindings as plain JSON data
func gbs(bs match.Bindings) match.Bindings {
	return match.Bindings(generic(map[string]interface{}(bs)).(map[string]interface{}))
}

func timerMsgs(x interface{}) O {
	out := O{}
	if mm, is := generic(x).(map[string]interface{}); is {
		for id, e := range mm {
			if em, is := e.(map[string]interface{}); is {
				out[id] = enc.V(em["Msg"])
			}
		}
	}
	return out
}

func nodeOr(n string) string {
	if n == "" {
		return "start"
	}
	return n
}

// observe projects the real state onto the model's variables
func (h *harness) observe() O {
	ms := O{}
	var tbs, cbs interface{} = enc.Bs(match.Bindings{}), enc.Bs(match.Bindings{})
	tmap := O{}
	tnode := "start"
	for mid, m := range h.c.Machines {
		switch mid {
		case sio.TimersMachine:
			if m.State != nil {
				tbs = enc.Bs(gbs(withoutTimers(m.State.Bs)))
				tmap = timerMsgs(m.State.Bs["timers"])
				tnode = nodeOr(m.State.NodeName)
			}
		case sio.CaptainMachine:
			if m.State != nil {
				cbs = enc.Bs(gbs(m.State.Bs))
			}
		default:
			ms[mid] = O{"spec": specName(m), "st": mach.EncState(&core.State{NodeName: m.State.NodeName, Bs: gbs(m.State.Bs)})}
		}
	}
	sms := O{}
	stm := O{"bs": enc.Bs(match.Bindings{}), "map": O{}, "node": "start"}
	for mid, s := range h.shadow {
		switch mid {
		case sio.TimersMachine:
			if s.State != nil {
				stm = O{"bs": enc.Bs(withoutTimers(s.State.Bs)), "map": timerMsgs(s.State.Bs["timers"]), "node": nodeOr(s.State.NodeName)}
			}
		case sio.CaptainMachine:
		default:
			name := ""
			if s.Src != nil && s.Src.Inline != nil {
				name = s.Src.Inline.Name
			}
			st := s.State
			if st == nil {
				st = &core.State{NodeName: "start", Bs: match.Bindings{}}
			}
			sms[mid] = O{"spec": name, "st": mach.EncState(st)}
		}
	}
	return O{"ms": ms, "tbs": tbs, "tnode": tnode, "tmap": tmap, "cbs": cbs, "store": O{"ms": sms, "tm": stm}, "inq": mach.EncMsgs(generic(append([]interface{}{}, h.inq...)).([]interface{}))}
}

// one harness for the whole process: timer goroutines of earlier crews may still report to the hook,
// and are recognised as belonging to an earlier boot
var theHarness = &harness{gates: map[*sio.TimerEntry]*gate{}, byId: map[string]*sio.TimerEntry{}, shadow: map[string]*stored{}}

// run replays one behaviour; acts are ["s", i] (1-based input), ["f", id], ["d", 0], ["r", 0]
func run(id int, acts []T, pick func(h *harness) T) O {
	h := theHarness
	hook.Set(h.hook)
	h.shadow = map[string]*stored{}
	h.boot(false)
	ins := inputs()
	steps := T{}
	outcome := "returned"
	done := T{}
	for i := 0; ; i++ {
		var a T
		if pick != nil {
			if a = pick(h); a == nil {
				break
			}
		} else {
			if i >= len(acts) {
				break
			}
			a = acts[i]
		}
		done = append(done, a)
		step := O{"act": a, "real": "ok", "out": T{}}
		switch a[0].(string) {
		case "s":
			k := int(toF(a[1]))
			out, oc := h.process(realMsg(ins[k-1]))
			step["out"] = orEmpty(out)
			if oc != "returned" {
				outcome = oc
			}
		case "d":
			if len(h.inq) == 0 {
				step["real"] = "queue-empty"
				break
			}
			m := h.inq[0]
			h.inq = h.inq[1:]
			out, oc := h.process(m)
			step["out"] = orEmpty(out)
			if oc != "returned" {
				outcome = oc
			}
		case "f":
			step["real"] = h.fire(a[1].(string))
			if step["real"] == "fired" {
				step["real"] = "ok"
			}
		case "r":
			h.boot(true)
		}
		step["obs"] = h.observe()
		steps = append(steps, step)
		if outcome != "returned" || step["real"] != "ok" {
			break
		}
	}
	h.cancel()
	h.releaseAll()
	h.cancel = nil
	return O{"id": id, "kind": "system", "steps": steps, "outcome": outcome, "raw": enc.Canon(O{"acts": done})}
}

func orEmpty(t T) T {
	if t == nil {
		return T{}
	}
	return t
}

func toF(x interface{}) float64 {
	switch v := x.(type) {
	case float64:
		return v
	case int:
		return float64(v)
	}
	return 0
}

func main() {
	log.SetOutput(io.Discard)
	switch os.Args[1] {
	case "config":
		f, err := os.Create(os.Args[2])
		check(err)
		e := json.NewEncoder(f)
		e.SetEscapeHTML(false)
		check(e.Encode(config()))
		f.Close()
	case "replay":
		in, err := os.Open(os.Args[2])
		check(err)
		f, err := os.Create(os.Args[3])
		check(err)
		w := bufio.NewWriterSize(f, 1<<20)
		e := json.NewEncoder(w)
		e.SetEscapeHTML(false)
		sc := bufio.NewScanner(in)
		sc.Buffer(make([]byte, 1<<20), 1<<26)
		id := 0
		for sc.Scan() {
			var b struct {
				Acts []T `json:"acts"`
			}
			check(json.Unmarshal(sc.Bytes(), &b))
			id++
			check(e.Encode(run(id, b.Acts, nil)))
		}
		w.Flush()
		f.Close()
	case "stdio":
		n, _ := strconv.Atoi(os.Args[2])
		seed, _ := strconv.Atoi(os.Args[3])
		maxlen, _ := strconv.Atoi(os.Args[4])
		rng := rand.New(rand.NewSource(int64(seed)))
		f, err := os.Create(os.Args[5])
		check(err)
		dir, err := os.MkdirTemp(filepath.Dir(os.Args[5]), "stdio")
		check(err)
		w := bufio.NewWriterSize(f, 1<<20)
		e := json.NewEncoder(w)
		e.SetEscapeHTML(false)
		for id := 1; id <= n; id++ {
			check(e.Encode(stdioRun(id, rng, maxlen, dir, nil)))
		}
		w.Flush()
		f.Close()
		// (the directory is left to the caller: a crew that was just stopped may still be writing its state file, and the
		// Stdio couplings panic when that write fails)
		time.Sleep(20 * time.Millisecond)
	case "mcrew-config":
		mcrewConfig(os.Args[2])
	case "mcrew-encode":
		mcrewEncode(os.Args[2], os.Args[3])
	case "stdio-replay":
		in, err := os.Open(os.Args[2])
		check(err)
		f, err := os.Create(os.Args[3])
		check(err)
		dir, err := os.MkdirTemp(filepath.Dir(os.Args[3]), "stdio")
		check(err)
		w := bufio.NewWriterSize(f, 1<<20)
		e := json.NewEncoder(w)
		e.SetEscapeHTML(false)
		sc := bufio.NewScanner(in)
		sc.Buffer(make([]byte, 1<<20), 1<<26)
		id := 0
		rng := rand.New(rand.NewSource(1))
		for sc.Scan() {
			var b struct {
				Acts []T `json:"acts"`
			}
			check(json.Unmarshal(sc.Bytes(), &b))
			id++
			check(e.Encode(stdioRun(id, rng, 0, dir, b.Acts)))
		}
		w.Flush()
		f.Close()
		// (the directory is left to the caller: a crew that was just stopped may still be writing its state file, and the
		// Stdio couplings panic when that write fails)
		time.Sleep(20 * time.Millisecond)
	case "random":
		n, _ := strconv.Atoi(os.Args[2])
		seed, _ := strconv.Atoi(os.Args[3])
		maxlen, _ := strconv.Atoi(os.Args[4])
		rng := rand.New(rand.NewSource(int64(seed)))
		f, err := os.Create(os.Args[5])
		check(err)
		w := bufio.NewWriterSize(f, 1<<20)
		e := json.NewEncoder(w)
		e.SetEscapeHTML(false)
		nin := len(inputs())
		for id := 1; id <= n; id++ {
			left := 2 + rng.Intn(maxlen-1)
			pick := func(h *harness) T {
				if left == 0 {
					return nil
				}
				left--
				for {
					switch x := rng.Intn(10); {
					case x < 5:
						return T{"s", 1 + rng.Intn(nin)}
					case x < 7:
						if p := h.pending(); len(p) > 0 {
							return T{"f", p[rng.Intn(len(p))]}
						}
					case x < 9:
						if len(h.inq) > 0 {
							return T{"d", 0}
						}
					default:
						return T{"r", 0}
					}
				}
			}
			check(e.Encode(run(id, nil, pick)))
		}
		w.Flush()
		f.Close()
	}
}

func check(err error) {
	if err != nil {
		fmt.Fprintln(os.Stderr, "sysdrv:", err)
		os.Exit(2)
	}
}
