package main

// stdio mode: the crew runs as sio/siostd runs it - the real Loop goroutine, the real Stdio couplings
// (lines in, "emit"/"update" lines out, every reported change folded into a state map that is written
// to a JSON file after each message), timers firing by themselves - and is restarted from the state
// file.  Only what a user of siostd sees is recorded: the lines written and the state file.  Timer
// firings and the processing of fired messages are NOT observed; spec/Trace_SystemIO.tla lets TLC
// search for them (silent Fire / Deliver steps of SioSystem.tla between the recorded actions).

import (
	"context"
	"encoding/json"
	"io"
	"math/rand"
	"os"
	"path/filepath"
	"sort"
	"strings"
	"sync"
	"time"

	"verifharness/enc"
	"verifharness/mach"

	"github.com/Comcast/sheens/core"
	"github.com/Comcast/sheens/crew"
	"github.com/Comcast/sheens/match"
	"github.com/Comcast/sheens/sio"
)

type proc struct {
	stdin  *io.PipeWriter
	cancel context.CancelFunc
	mu     sync.Mutex
	cond   *sync.Cond
	buf    []byte
	emits  []interface{} // messages written as "emit" lines since the last barrier was taken
	marker int           // the highest barrier number seen in an "update probe" line
	atMark []interface{} // the emissions that preceded that line (and followed the previous marker taken)
	out    string        // state file
	done   chan struct{}
	q      chan []byte // input lines, written to the crew's stdin in order
	st     *sio.Stdio
}

// Write receives what the Stdio couplings print, synchronously with the goroutine that prints it: the
// order of "emit" lines relative to the "update probe" line of a barrier is exact.
func (p *proc) Write(b []byte) (int, error) {
	p.mu.Lock()
	defer p.mu.Unlock()
	p.buf = append(p.buf, b...)
	for {
		i := strings.IndexByte(string(p.buf), '\n')
		if i < 0 {
			break
		}
		line := string(p.buf[:i])
		p.buf = p.buf[i+1:]
		switch {
		case strings.HasPrefix(line, "emit "):
			if rest := strings.SplitN(line, " ", 3); len(rest) == 3 {
				var m interface{}
				if json.Unmarshal([]byte(rest[2]), &m) == nil {
					p.emits = append(p.emits, m)
				}
			}
		case strings.HasPrefix(line, "update probe "):
			if j := strings.Index(line, `"n":`); j > 0 {
				n := 0
				for _, ch := range line[j+4:] {
					if ch < '0' || ch > '9' {
						break
					}
					n = n*10 + int(ch-'0')
				}
				if n > p.marker {
					p.marker = n
					p.atMark = append(p.atMark, p.emits...)
					p.emits = nil
					p.cond.Broadcast()
				}
			}
		}
	}
	return len(b), nil
}

func startProc(stateIn, stateOut string) *proc {
	pr, pw := io.Pipe()
	st := sio.NewStdio(false)
	ctx, cancel := context.WithCancel(context.Background())
	p := &proc{stdin: pw, cancel: cancel, out: stateOut, done: make(chan struct{}), q: make(chan []byte, 4096)}
	p.cond = sync.NewCond(&p.mu)
	go func() {
		for b := range p.q {
			if _, err := pw.Write(b); err != nil {
				return
			}
		}
	}()
	p.st = st
	st.In, st.Out = pr, p
	st.StateInputFilename, st.StateOutputFilename = stateIn, stateOut
	st.WriteStatePerMsg = true
	// as sio/siostd/main.go does
	c, err := sio.NewCrew(ctx, &sio.CrewConf{Ctl: &core.Control{Limit: 100}}, st)
	check(err)
	check(st.Start(ctx))
	ms, err := st.Read(ctx)
	check(err)
	mids := []string{}
	for mid := range ms {
		mids = append(mids, mid)
	}
	sort.Strings(mids)
	for _, mid := range mids {
		check(c.SetMachine(ctx, mid, ms[mid].SpecSource, ms[mid].State))
	}
	go func() {
		c.Loop(ctx)
		close(p.done)
	}()
	return p
}

// stop ends the process the way siostd ends: the loop stops, the couplings' goroutines finish what they are doing
// (Stdio.Stop waits for them and writes the state once more).  Afterwards nothing is printed or written any more:
// the state file and the emissions seen so far are final.
func (p *proc) stop() {
	p.cancel()
	p.stdin.Close()
	close(p.q)
	select {
	case <-p.done:
	case <-time.After(2 * time.Second):
	}
	stopped := make(chan struct{})
	go func() {
		p.st.Stop(context.Background())
		close(stopped)
	}()
	select {
	case <-stopped:
	case <-time.After(2 * time.Second):
	}
}

// leftovers: what the process printed after the last barrier was taken
func (p *proc) leftovers() T {
	p.mu.Lock()
	e := append(append([]interface{}{}, p.atMark...), p.emits...)
	p.atMark, p.emits = nil, nil
	p.mu.Unlock()
	return mach.EncMsgs(generic(e).([]interface{})).(T)
}

func (p *proc) write(msg interface{}) {
	js, err := json.Marshal(msg)
	check(err)
	p.q <- append(js, '\n')
}

var barrierN int

// barrier sends a message to the probe machine (which records its number) and waits until the crew has
// reported that change: every input sent before, and every fired message that was queued before, has then
// been processed and printed.  Returns the emissions printed before the barrier's own report, and the state
// file as written by the barrier's result or a later one (projected like the model's store).
func (p *proc) barrier() (T, O, int, bool) {
	barrierN++
	k := barrierN
	p.write(obj("to", "probe", "probe", float64(k)))
	ok := true
	p.mu.Lock()
	deadline := time.Now().Add(4 * time.Second)
	for p.marker < k {
		if time.Now().After(deadline) {
			ok = false
			break
		}
		// sync.Cond has no timed wait: poll
		p.mu.Unlock()
		time.Sleep(100 * time.Microsecond)
		p.mu.Lock()
	}
	em := p.atMark
	p.atMark = nil
	p.mu.Unlock()
	ems := mach.EncMsgs(generic(append([]interface{}{}, em...)).([]interface{})).(T)
	if !ok {
		return ems, nil, 0, false
	}
	for try := 0; try < 4000; try++ {
		if st, pending, n, fine := p.store(); fine && n >= k {
			return ems, st, pending, true
		}
		time.Sleep(250 * time.Microsecond)
	}
	return ems, nil, 0, false
}

// the state file, projected like the model's store (without the probe machine); ok=false while it cannot
// be parsed (it is being rewritten)
func (p *proc) store() (O, int, int, bool) {
	js, err := os.ReadFile(p.out)
	var st map[string]*crew.Machine
	if err != nil || json.Unmarshal(js, &st) != nil {
		return nil, 0, 0, false
	}
	sms := O{}
	stm := O{"bs": enc.Bs(match.Bindings{}), "map": O{}, "node": "start"}
	pending, n := 0, 0
	for mid, m := range st {
		switch mid {
		case sio.TimersMachine:
			if m.State != nil {
				tm := timerMsgs(m.State.Bs["timers"])
				pending = len(tm)
				stm = O{"bs": enc.Bs(withoutTimers(m.State.Bs)), "map": tm, "node": nodeOr(m.State.NodeName)}
			}
		case sio.CaptainMachine:
		case "probe":
			if m.State != nil {
				n = int(toF(m.State.Bs["n"]))
			}
		default:
			name := ""
			if m.SpecSource != nil && m.SpecSource.Inline != nil {
				name = m.SpecSource.Inline.Name
			}
			s := m.State
			if s == nil {
				s = &core.State{NodeName: "start", Bs: match.Bindings{}}
			}
			sms[mid] = O{"spec": name, "st": mach.EncState(s)}
		}
	}
	return O{"ms": sms, "tm": stm}, pending, n, true
}

func probeSpec() *mach.ASpec {
	return &mach.ASpec{Nodes: map[string]*mach.ANode{
		"start": {BType: "message", Branches: []mach.ABranch{{HasPat: true, Pat: obj("probe", "?n"), Target: "set"}}},
		"set":   {Act: []mach.Op{{Name: "setfrom", K: "n", K2: "?n"}, {Name: "del", K: "?n"}}, BType: "bindings", Branches: []mach.ABranch{{Target: "start"}}},
	}}
}

// stdioRun: one random behaviour; actions ["s",i] submit, ["p",ms] pause, ["w",0] wait until no timer is pending,
// ["r",0] stop the process and start another from the state file.  Every action is followed by a barrier.
func stdioRun(id int, rng *rand.Rand, maxlen int, dir string, given []T) O {
	ins := inputs()
	f1 := filepath.Join(dir, "state.json")
	os.Remove(f1)
	p := startProc("", f1)
	outcome := "returned"
	// the initial crew arrives the only way siostd allows: as crew operations on stdin
	specs["probe"] = probeSpec()
	p.write(realMsg(input{k: "add", mid: "probe", spec: "probe", node: "start", bs: M{}}))
	mids := []string{}
	for mid := range initial {
		mids = append(mids, mid)
	}
	sort.Strings(mids)
	for _, mid := range mids {
		m := initial[mid]
		p.write(realMsg(input{k: "add", mid: mid, spec: m.spec, node: m.node, bs: m.bs}))
		if _, _, _, ok := p.barrier(); !ok {
			outcome = "no-response"
		}
	}
	delete(specs, "probe")
	steps := T{}
	done := T{}
	gen := 0
	n := len(given)
	if given == nil {
		n = 2 + rng.Intn(maxlen-1)
	}
	for i := 0; i < n && outcome == "returned"; i++ {
		var a T
		switch x := rng.Intn(20); {
		case given != nil:
			a = given[i]
		case x < 12:
			// (the blinker is not started in this mode: a timer that re-creates itself never lets a "w" action end)
			k := 1 + rng.Intn(len(ins))
			for ins[k-1].m["tick"] != nil {
				k = 1 + rng.Intn(len(ins))
			}
			a = T{"s", k}
		case x < 15:
			a = T{"p", 10 + rng.Intn(50)}
		case x < 18:
			a = T{"w", 0}
		default:
			// (1: the process that was started from the file is stopped again before it has processed anything, and a third
			// one is started from what IT wrote - a restart is a restart however little happened in between)
			a = T{"r", rng.Intn(3) / 2}
		}
		done = append(done, a)
		step := O{"act": a, "real": "ok", "bars": 1}
		bars := 0
		var carried T
		switch a[0].(string) {
		case "s":
			p.write(realMsg(ins[int(toF(a[1]))-1]))
		case "p":
			time.Sleep(time.Duration(int(toF(a[1]))) * time.Millisecond)
		case "w":
			// barriers until the state file shows no pending timer (each of them is a processing step of the crew)
			deadline := time.Now().Add(3 * time.Second)
			for {
				em, _, pending, ok := p.barrier()
				bars++
				carried = append(carried, em...)
				if !ok || pending == 0 {
					break
				}
				if time.Now().After(deadline) {
					step["real"] = "timers-still-pending"
					break
				}
				time.Sleep(3 * time.Millisecond)
			}
		case "r":
			// everything sent so far is processed and written; then the process is dropped and another one started from the file
			em, _, _, _ := p.barrier()
			bars++
			carried = append(carried, em...)
			p.stop()
			carried = append(carried, p.leftovers()...)
			gen++
			prev := p.out
			next := filepath.Join(dir, "state"+string(rune('a'+gen%26))+".json")
			// (the file is rewritten in place: wait for a complete one)
			var js []byte
			for try := 0; try < 4000; try++ {
				var probe map[string]interface{}
				b, err := os.ReadFile(prev)
				if err == nil && json.Unmarshal(b, &probe) == nil {
					js = b
					break
				}
				time.Sleep(250 * time.Microsecond)
			}
			if js == nil {
				step["real"] = "state-file-unreadable"
				js = []byte("{}")
			}
			// the new process starts from a COPY taken at a moment the file was complete (the old process may still be
			// finishing a write of its own file)
			check(os.WriteFile(next, js, 0644))
			check(os.WriteFile(next+".in", js, 0644))
			p = startProc(next+".in", next)
			if int(toF(a[1])) == 1 {
				p.stop()
				carried = append(carried, p.leftovers()...)
				gen++
				third := filepath.Join(dir, "state"+string(rune('a'+gen%26))+".json")
				b, err := os.ReadFile(next)
				if err != nil {
					step["real"] = "state-file-unreadable"
					b = []byte("{}")
				}
				check(os.WriteFile(third, b, 0644))
				check(os.WriteFile(third+".in", b, 0644))
				p = startProc(third+".in", third)
			}
		}
		em, st, _, ok := p.barrier()
		if !ok {
			if step["real"] == "ok" {
				step["real"] = "no-response"
			}
			st = O{"ms": O{}, "tm": O{"bs": O{}, "map": O{}, "node": "start"}}
		}
		step["pre"] = bars // barriers processed between the action and the final one
		step["store"] = st
		all := T{}
		all = append(all, carried...)
		all = append(all, em...)
		step["emitted"] = all
		steps = append(steps, step)
		if step["real"] != "ok" {
			break
		}
	}
	p.stop()
	return O{"id": id, "kind": "system-stdio", "steps": steps, "outcome": outcome, "raw": enc.Canon(O{"acts": done})}
}
