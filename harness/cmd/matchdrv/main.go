// matchdrv drives the real match.Match and records what it does (C01, C02, C03).
// It contains no property logic: it builds inputs, calls the real code and
// records inputs, outputs and snapshots.  TLC (spec/Trace_Match.tla) judges.
//
//	matchdrv univ <exported.ndjson> <out.ndjson>        cases enumerated by TLC
//	matchdrv gen <mode> <n> <seed> <out.ndjson>         mode: deep | planted | pure
package main

import (
	"bufio"
	"encoding/json"
	"fmt"
	"math/rand"
	"os"
	"sort"
	"strings"
	"strconv"
	"sync"
	"sync/atomic"

	"verifharness/enc"

	"github.com/Comcast/sheens/match"
)

type T = enc.T
type O = enc.O

var rng *rand.Rand

// ---------------------------------------------------------------- building values in a chosen map order

// build deep-copies x; every map is created by inserting its keys in an order
// drawn from r (nil: sorted order).  Go iterates small maps as a rotation of the
// insertion order, so permuted construction plus repetition reaches every order.
func build(x interface{}, r *rand.Rand) interface{} {
	switch vv := x.(type) {
	case map[string]interface{}:
		ks := enc.SortedKeys(vv)
		if r != nil {
			r.Shuffle(len(ks), func(i, j int) { ks[i], ks[j] = ks[j], ks[i] })
		}
		m := make(map[string]interface{})
		for _, k := range ks {
			m[k] = build(vv[k], r)
		}
		return m
	case match.Bindings:
		return match.Bindings(build(map[string]interface{}(vv), r).(map[string]interface{}))
	case []interface{}:
		a := make([]interface{}, len(vv))
		for i, v := range vv {
			a[i] = build(v, r)
		}
		return a
	}
	return x
}

func errClass(err error) string {
	if err == nil {
		return ""
	}
	return "error"
}

type eval struct {
	Res interface{} `json:"res"`
	Err string      `json:"err"`
}

type caseRec struct {
	Id           int         `json:"id"`
	Kind         string      `json:"kind"`
	P            interface{} `json:"p"`
	M            interface{} `json:"m"`
	Bs           interface{} `json:"bs"`
	Qstr         bool        `json:"qstr"`
	HasSigma     bool        `json:"hasSigma"`
	Sigma        interface{} `json:"sigma"`
	Evals        []eval      `json:"evals"`
	Frame        O           `json:"frame"`
	FrameMut     O           `json:"frameMut"`
	OthersBefore interface{} `json:"othersBefore"`
	OthersAfter  interface{} `json:"othersAfter"`
	EditSame     bool        `json:"editSame"`
	Raw          string      `json:"raw"` // the plain JSON inputs as text, for replay files (ignored by the judge)
	raw          O
}

func safeMatch(p, m interface{}, bs match.Bindings) (res []match.Bindings, err error) {
	defer func() {
		if r := recover(); r != nil {
			err = fmt.Errorf("panic: %v", r)
		}
	}()
	// (both entry points: the package function and the default matcher's method, which is what core calls)
	if forceDefault || (atomic.AddInt64(&entry, 1)/3000)%2 == 1 { // (in long runs of one and then the other: what a matcher keeps between calls adds up)
		return match.DefaultMatcher.Match(p, m, bs)
	}
	return match.Match(p, m, bs)
}

var entry int64

// forceDefault: from the middle of a generated run on, every match goes through the default matcher's method, after a long
// history of array matches through it (a matcher may keep nothing from one match to the next)
var forceDefault bool

func longHistory() {
	p := map[string]interface{}{"xs": []interface{}{map[string]interface{}{"a": "?x"}, map[string]interface{}{"b": "?y"}}}
	m := map[string]interface{}{"xs": []interface{}{map[string]interface{}{"a": 1.0}, map[string]interface{}{"b": 2.0}, map[string]interface{}{"a": 3.0, "b": 4.0}}}
	for i := 0; i < 4000; i++ {
		match.DefaultMatcher.Match(p, m, match.Bindings{})
	}
	forceDefault = true
}

// runCase evaluates (p, m, bs) nEvals times with permuted map construction and
// nConc concurrent evaluations of one shared pattern value.
func runCase(id int, kind string, p, m interface{}, bs match.Bindings, sigma match.Bindings, nEvals, nConc int) *caseRec {
	c := &caseRec{Id: id, Kind: kind, P: enc.P(p), M: enc.V(m), Bs: enc.Bs(bs), Sigma: enc.Bs(sigma), HasSigma: sigma != nil,
		Qstr: hasQ(m) || hasQBs(bs),
		raw:  O{"p": p, "m": m, "bs": bs}}
	c.Raw = enc.Canon(c.raw)
	var first []match.Bindings
	var p0, m0 interface{}
	var bs0 match.Bindings
	for i := 0; i < nEvals; i++ {
		var r *rand.Rand
		if i > 0 {
			r = rand.New(rand.NewSource(int64(id*1000 + i)))
		}
		pi, mi := build(p, r), build(m, r)
		bsi := build(bs, r).(match.Bindings)
		res, err := safeMatch(pi, mi, bsi)
		c.Evals = append(c.Evals, eval{Res: enc.Bss(res), Err: errClass(err)})
		if i == 0 {
			first, p0, m0, bs0 = res, pi, mi, bsi
		}
	}
	// (if the sequential evaluations already wrote into their arguments, evaluating one shared
	// value from many goroutines would only crash the driver with "concurrent map writes";
	// the recorded frame shows the modification and the judge reports it)
	if nConc > 0 && enc.Canon(enc.Bs(bs0)) == enc.Canon(c.Bs) && enc.Canon(enc.P(p0)) == enc.Canon(c.P) && enc.Canon(enc.V(m0)) == enc.Canon(c.M) {
		// one shared pattern/message/bindings value, many goroutines
		ps, ms := build(p, nil), build(m, nil)
		bss := build(bs, nil).(match.Bindings)
		out := make([]eval, nConc)
		var wg sync.WaitGroup
		for g := 0; g < nConc; g++ {
			wg.Add(1)
			go func(g int) {
				defer wg.Done()
				res, err := safeMatch(ps, ms, bss)
				out[g] = eval{Res: enc.Bss(res), Err: errClass(err)}
			}(g)
		}
		wg.Wait()
		c.Evals = append(c.Evals, out...)
		// the shared values must not have been modified either
		if enc.Canon(enc.P(ps)) != enc.Canon(c.P) || enc.Canon(enc.V(ms)) != enc.Canon(c.M) || enc.Canon(enc.Bs(bss)) != enc.Canon(c.Bs) {
			p0, m0, bs0 = ps, ms, bss
		}
	}
	// a pattern value that has been matched is edited where it is (one property renamed, the size unchanged) and matched
	// again: the answer is the one a fresh copy of the edited pattern gets
	c.EditSame = true
	if pm, is := p0.(map[string]interface{}); is && (kind == "pure" || kind == "deep") && enc.Canon(enc.P(p0)) == enc.Canon(c.P) {
		for _, k := range enc.SortedKeys(pm) {
			if enc.IsVar(k) {
				continue
			}
			v := pm[k]
			delete(pm, k)
			pm[k+"_renamed"] = v
			r1, e1 := safeMatch(pm, build(m, nil), build(bs, nil).(match.Bindings))
			r2, e2 := safeMatch(build(pm, nil), build(m, nil), build(bs, nil).(match.Bindings))
			c.EditSame = bagOf(r1) == bagOf(r2) && errClass(e1) == errClass(e2)
			delete(pm, k+"_renamed")
			pm[k] = v
			break
		}
	}
	// arguments as observed after the calls
	c.Frame = O{"p": enc.P(p0), "m": enc.V(m0), "bs": enc.Bs(bs0)}
	// independence of the returned maps: mutate the first result, look at the others
	others := func() interface{} {
		if len(first) < 2 {
			return T{}
		}
		return enc.Bss(first[1:])
	}
	c.OthersBefore = others()
	if len(first) > 0 && first[0] != nil {
		scribble(first[0])
	}
	c.OthersAfter = others()
	for _, r := range first {
		if r != nil {
			scribble(r)
		}
	}
	c.FrameMut = O{"p": enc.P(p0), "m": enc.V(m0), "bs": enc.Bs(bs0)}
	return c
}

// bagOf: the results as a bag (their order is not specified)
func bagOf(bss []match.Bindings) string {
	xs := []string{}
	for _, b := range bss {
		xs = append(xs, enc.Canon(enc.Bs(b)))
	}
	sort.Strings(xs)
	return strings.Join(xs, "|")
}

// scribble changes a returned bindings map at its top level.
func scribble(bs match.Bindings) {
	for k := range bs {
		bs[k] = "scribbled"
	}
	bs["?scribble"] = "scribbled"
}

func hasQBs(bs match.Bindings) bool {
	for _, v := range bs {
		if hasQ(v) {
			return true
		}
	}
	return false
}

func hasQ(x interface{}) bool {
	switch vv := x.(type) {
	case string:
		return enc.IsVar(vv)
	case []interface{}:
		for _, v := range vv {
			if hasQ(v) {
				return true
			}
		}
	case map[string]interface{}:
		for k, v := range vv {
			if enc.IsVar(k) || hasQ(v) {
				return true
			}
		}
	}
	return false
}

// ---------------------------------------------------------------- generators

var keys = []string{"a", "b", "c", "d"}
var strs = []string{"a", "b", "x", "yy"}
var plainVars = []string{"?x", "?y", "?z", "?w"}
var optVars = []string{"??o", "??p"}
var ineqVars = []string{"?<n", "?<=k", "?>g", "?>=h", "?!=q"}

func scalar() interface{} {
	switch rng.Intn(6) {
	case 0:
		return float64(rng.Intn(5))
	case 1:
		return float64(rng.Intn(7)) / 2
	case 2, 3:
		return strs[rng.Intn(len(strs))]
	case 4:
		return rng.Intn(2) == 0
	}
	return nil
}

func value(depth int) interface{} {
	if depth <= 0 || rng.Intn(3) == 0 {
		return scalar()
	}
	if rng.Intn(2) == 0 {
		m := map[string]interface{}{}
		for i, n := 0, rng.Intn(3); i < n; i++ {
			m[keys[rng.Intn(len(keys))]] = value(depth - 1)
		}
		return m
	}
	a := []interface{}{}
	for i, n := 0, rng.Intn(3); i < n; i++ {
		a = appendSet(a, value(depth-1))
	}
	return a
}

// appendSet appends v unless an equal member is present (arrays are sets).
func appendSet(a []interface{}, v interface{}) []interface{} {
	cv := enc.Canon(v)
	for _, x := range a {
		if enc.Canon(x) == cv {
			return a
		}
	}
	return append(a, v)
}

type genCfg struct {
	depth    int
	vars     []string // variable pool
	repeat   bool     // allow the same variable at several places
	used     map[string]int
	propVars bool
}

func (g *genCfg) pickVar() string {
	for try := 0; try < 8; try++ {
		v := g.vars[rng.Intn(len(g.vars))]
		if g.used[v] > 0 && !g.repeat && v != "?" {
			continue
		}
		g.used[v]++
		return v
	}
	return "?"
}

// pattern generates a pattern of the supported fragment.
func (g *genCfg) pattern(depth int, allowVar bool) interface{} {
	r := rng.Intn(10)
	switch {
	case allowVar && r < 3:
		return g.pickVar()
	case depth <= 0 || r < 5:
		return scalar()
	case r < 8:
		if g.propVars && rng.Intn(6) == 0 {
			return map[string]interface{}{g.pickVar(): g.pattern(depth-1, true)}
		}
		m := map[string]interface{}{}
		for i, n := 0, rng.Intn(4); i < n; i++ {
			m[keys[rng.Intn(len(keys))]] = g.pattern(depth-1, true)
		}
		return m
	default:
		a := []interface{}{}
		for i, n := 0, rng.Intn(3); i < n; i++ {
			a = appendSet(a, g.pattern(depth-1, false))
		}
		if rng.Intn(2) == 0 {
			a = append(a, g.pickVar())
			rng.Shuffle(len(a), func(i, j int) { a[i], a[j] = a[j], a[i] })
		}
		return a
	}
}

type inst struct {
	sigma   match.Bindings
	scalars bool // variables take scalar values only
	bs0     match.Bindings
	noise   int // 0..3: how much is added around the instance
	decoys  bool
}

func (in *inst) valOf(v string) interface{} {
	if v == "?" {
		return value(1)
	}
	if x, have := in.sigma[v]; have {
		return x
	}
	var x interface{}
	t := enc.VarTok(v).(T)
	if t[1] == "ineq" {
		// a pre-bound numeric bound and a value that usually satisfies the relation
		b := float64(rng.Intn(6))
		in.bs0[v] = b
		a := b
		switch t[4] {
		case "<":
			a = b - 1 - float64(rng.Intn(2))
		case "<=":
			a = b - float64(rng.Intn(2))
		case ">":
			a = b + 1 + float64(rng.Intn(2))
		case ">=":
			a = b + float64(rng.Intn(2))
		case "!=":
			a = b + 1
		}
		if rng.Intn(5) == 0 {
			a = float64(rng.Intn(6)) // may or may not satisfy
		}
		in.sigma[v] = a // the value seen at the variable's position
		return a
	}
	if in.scalars || rng.Intn(2) == 0 {
		x = scalar()
	} else {
		x = value(2)
	}
	in.sigma[v] = x
	return x
}

func (in *inst) extraKeys(m map[string]interface{}, avoid map[string]interface{}) {
	for i := 0; i < in.noise; i++ {
		if rng.Intn(2) == 0 {
			continue
		}
		k := keys[rng.Intn(len(keys))] + strconv.Itoa(rng.Intn(3))
		if _, have := avoid[k]; have {
			continue
		}
		m[k] = value(2)
	}
}

// decoy returns a near copy of a structured value with one leaf changed.
func decoy(x interface{}) interface{} {
	switch vv := x.(type) {
	case map[string]interface{}:
		m := enc.DeepCopy(vv).(map[string]interface{})
		ks := enc.SortedKeys(m)
		if len(ks) == 0 {
			m["zz"] = scalar()
			return m
		}
		k := ks[rng.Intn(len(ks))]
		m[k] = decoy(m[k])
		return m
	case []interface{}:
		a := enc.DeepCopy(vv).([]interface{})
		if len(a) == 0 {
			return append(a, scalar())
		}
		i := rng.Intn(len(a))
		a[i] = decoy(a[i])
		return a
	}
	return scalar()
}

// instantiate builds a message containing the pattern instantiated by sigma
// (chosen on the way), plus extras.
func (in *inst) instantiate(p interface{}) (interface{}, bool) {
	switch vv := p.(type) {
	case string:
		if enc.IsVar(vv) {
			return in.valOf(vv), true
		}
		return vv, true
	case map[string]interface{}:
		m := map[string]interface{}{}
		if len(vv) == 1 {
			for k, sub := range vv {
				if enc.IsVar(k) {
					kv := in.valOf(k)
					ks, is := kv.(string)
					if !is {
						ks = keys[rng.Intn(len(keys))]
						if k != "?" {
							in.sigma[k] = ks
						}
					}
					x, _ := in.instantiate(sub)
					m[ks] = x
					in.extraKeys(m, m)
					return m, true
				}
			}
		}
		for _, k := range enc.SortedKeys(vv) {
			sub := vv[k]
			if s, is := sub.(string); is && enc.VarTok(s).(T)[1] == "opt" && rng.Intn(3) == 0 {
				if _, have := in.sigma[s]; !have {
					continue // optional variable left unmatched
				}
			}
			x, _ := in.instantiate(sub)
			m[k] = x
		}
		in.extraKeys(m, vv)
		return m, true
	case []interface{}:
		a := []interface{}{}
		for _, sub := range vv {
			if s, is := sub.(string); is && enc.IsVar(s) && enc.VarTok(s).(T)[1] == "opt" && rng.Intn(3) == 0 {
				if _, have := in.sigma[s]; !have {
					continue
				}
			}
			x, _ := in.instantiate(sub)
			a = appendSet(a, x)
			if in.decoys {
				switch x.(type) {
				case map[string]interface{}, []interface{}:
					if rng.Intn(2) == 0 {
						a = appendSet(a, decoy(x))
					}
				}
			}
		}
		for i := 0; i < in.noise; i++ {
			if rng.Intn(2) == 0 {
				a = appendSet(a, value(2))
			}
		}
		rng.Shuffle(len(a), func(i, j int) { a[i], a[j] = a[j], a[i] })
		return a, true
	}
	return p, true
}

// perturb changes one place of a message so that near-misses are exercised.
func perturb(x interface{}) interface{} { return decoy(x) }

func genDeep(id int) *caseRec {
	g := &genCfg{vars: append(append(append([]string{"?"}, plainVars...), optVars...), ineqVars...), repeat: true, used: map[string]int{}, propVars: true}
	p := g.pattern(2+rng.Intn(4), true)
	in := &inst{sigma: match.Bindings{}, bs0: match.Bindings{}, noise: rng.Intn(4), decoys: rng.Intn(2) == 0, scalars: rng.Intn(3) == 0}
	m, _ := in.instantiate(p)
	if rng.Intn(4) == 0 {
		m = perturb(m)
	}
	// pre-bind some variables: to their value, to a sub-value of it, or to something else
	bs := in.bs0
	for _, v := range enc.SortedKeys(in.sigma) {
		if _, pre := bs[v]; pre {
			continue
		}
		if enc.VarTok(v).(T)[1] == "ineq" {
			continue
		}
		switch rng.Intn(6) {
		case 0:
			bs[v] = enc.DeepCopy(in.sigma[v])
		case 1:
			bs[v] = subValue(in.sigma[v])
		case 2:
			bs[v] = value(1)
		}
	}
	// sometimes give the plain counterpart of an inequality variable
	for _, v := range enc.SortedKeys(in.sigma) {
		t := enc.VarTok(v).(T)
		if t[1] == "ineq" && rng.Intn(4) == 0 {
			switch rng.Intn(3) {
			case 0:
				bs[t[3].(string)] = in.sigma[v]
			case 1:
				bs[t[3].(string)] = float64(rng.Intn(6))
			default:
				// a counterpart that is not a number at all: it cannot be the number at hand
				bs[t[3].(string)] = []interface{}{"lots", "lots", true, map[string]interface{}{"n": in.sigma[v]}}[rng.Intn(4)]
			}
		}
	}
	if rng.Intn(5) == 0 {
		bs["?unrelated"] = value(1)
	}
	return runCase(id, "deep", p, m, bs, nil, 1, 0)
}

// subValue returns a value contained in x (drops keys / members).
func subValue(x interface{}) interface{} {
	switch vv := x.(type) {
	case map[string]interface{}:
		m := map[string]interface{}{}
		for _, k := range enc.SortedKeys(vv) {
			if rng.Intn(3) > 0 {
				m[k] = subValue(vv[k])
			}
		}
		return m
	case []interface{}:
		a := []interface{}{}
		for _, v := range vv {
			if rng.Intn(3) > 0 {
				a = append(a, subValue(v))
			}
		}
		return a
	}
	return x
}

func genPlanted(id int) *caseRec {
	g := &genCfg{vars: append(append([]string{"?"}, plainVars...), optVars...), repeat: rng.Intn(3) == 0, used: map[string]int{}, propVars: true}
	p := g.pattern(2+rng.Intn(4), true)
	in := &inst{sigma: match.Bindings{}, bs0: match.Bindings{}, noise: 1 + rng.Intn(3), decoys: true, scalars: g.repeat}
	m, _ := in.instantiate(p)
	return runCase(id, "planted", p, m, match.Bindings{}, in.sigma, 1, 0)
}

// genPure: cases biased towards what C03 names: one variable at several places
// with structured values; maps that are invalid at one key and non-matching at
// another; plus ordinary deep cases.
func genPure(id int) *caseRec {
	var p, m interface{}
	bs := match.Bindings{}
	switch rng.Intn(5) {
	case 0: // repeated variable, structured values, one contained in the other
		big := value(2)
		if _, is := big.(map[string]interface{}); !is {
			big = map[string]interface{}{"k": scalar(), "j": scalar()}
		}
		small := subValue(big)
		ks := []string{"a", "b", "c"}
		rng.Shuffle(3, func(i, j int) { ks[i], ks[j] = ks[j], ks[i] })
		p = map[string]interface{}{ks[0]: "?x", ks[1]: "?x"}
		m = map[string]interface{}{ks[0]: big, ks[1]: small}
		if rng.Intn(2) == 0 {
			p.(map[string]interface{})[ks[2]] = "?y"
			m.(map[string]interface{})[ks[2]] = scalar()
		}
	case 1: // invalid at one key, non-matching at another
		bad := []interface{}{"?x", "?y"}
		if rng.Intn(2) == 0 {
			bad = []interface{}{"?x", "?x"}
		}
		p = map[string]interface{}{"a": bad, "b": float64(1)}
		m = map[string]interface{}{"a": []interface{}{float64(1)}, "b": float64(rng.Intn(3))}
		if rng.Intn(3) == 0 {
			p = map[string]interface{}{"a": map[string]interface{}{"?k": 1.0, "z": 2.0}, "b": float64(1), "c": "?v"}
			m = map[string]interface{}{"a": map[string]interface{}{"q": 1.0}, "b": float64(rng.Intn(3)), "c": scalar()}
		}
	case 2: // a property variable (anonymous or named) whose value pattern binds a variable; several properties fit, each its own way
		pv := []string{"?", "?", "?k"}[rng.Intn(3)]
		p = map[string]interface{}{pv: map[string]interface{}{"likes": "?x"}}
		mm := map[string]interface{}{}
		for i, n := 0, 2+rng.Intn(3); i < n; i++ {
			mm[[]string{"a", "b", "c", "d"}[i]] = map[string]interface{}{"likes": scalar(), "n": float64(i)}
		}
		if rng.Intn(2) == 0 {
			mm["z"] = map[string]interface{}{"hates": scalar()}
		}
		m = mm
	default:
		c := genDeep(id)
		p, m = c.raw["p"], c.raw["m"]
		bs = c.raw["bs"].(match.Bindings)
	}
	return runCase(id, "pure", p, m, bs, nil, 12, 8)
}

// ---------------------------------------------------------------- main

func main() {
	if len(os.Args) < 2 {
		fmt.Fprintln(os.Stderr, "usage: matchdrv univ|gen ...")
		os.Exit(2)
	}
	switch os.Args[1] {
	case "univ":
		in, err := os.Open(os.Args[2])
		check(err)
		defer in.Close()
		out := newOut(os.Args[3])
		defer out.close()
		sc := bufio.NewScanner(in)
		sc.Buffer(make([]byte, 1<<20), 1<<26)
		id := 0
		for sc.Scan() {
			var c struct {
				P, M, Bs interface{}
			}
			check(json.Unmarshal(sc.Bytes(), &c))
			id++
			out.write(runCase(id, "univ", enc.D(c.P), enc.D(c.M), enc.DBs(c.Bs), nil, 1, 0))
		}
		check(sc.Err())
	case "gen":
		mode := os.Args[2]
		n, _ := strconv.Atoi(os.Args[3])
		seed, _ := strconv.Atoi(os.Args[4])
		rng = rand.New(rand.NewSource(int64(seed)))
		out := newOut(os.Args[5])
		defer out.close()
		for id := 1; id <= n; id++ {
			if id == n/2+1 {
				longHistory()
			}
			switch mode {
			case "deep":
				out.write(genDeep(id))
			case "planted":
				out.write(genPlanted(id))
			case "pure":
				out.write(genPure(id))
			default:
				check(fmt.Errorf("unknown mode %s", mode))
			}
		}
	case "replay":
		// matchdrv replay <replay.json> <out.ndjson>: re-drive one recorded case
		js, err := os.ReadFile(os.Args[2])
		check(err)
		var r struct {
			Case struct {
				Kind     string
				Raw      string
				Sigma    interface{}
				HasSigma bool
			}
		}
		check(json.Unmarshal(js, &r))
		var raw struct {
			P, M interface{}
			Bs   map[string]interface{}
		}
		check(json.Unmarshal([]byte(r.Case.Raw), &raw))
		out := newOut(os.Args[3])
		defer out.close()
		var sigma match.Bindings
		if r.Case.HasSigma {
			sigma = enc.DBs(r.Case.Sigma)
		}
		nE, nC := 1, 0
		if r.Case.Kind == "pure" {
			nE, nC = 40, 8
		}
		out.write(runCase(1, r.Case.Kind, raw.P, raw.M, match.Bindings(raw.Bs), sigma, nE, nC))
	}
}

type outW struct {
	f *os.File
	w *bufio.Writer
	e *json.Encoder
}

func newOut(path string) *outW {
	f, err := os.Create(path)
	check(err)
	w := bufio.NewWriterSize(f, 1<<20)
	e := json.NewEncoder(w)
	e.SetEscapeHTML(false)
	return &outW{f, w, e}
}
func (o *outW) write(c *caseRec) { check(o.e.Encode(c)) }
func (o *outW) close()           { o.w.Flush(); o.f.Close() }

func check(err error) {
	if err != nil {
		fmt.Fprintln(os.Stderr, "matchdrv:", err)
		os.Exit(2)
	}
}

var _ = sort.Strings
