// expectdrv runs the real tools/expect Session.Run against a line-echo subprocess
// (cat) whose output stream the harness controls: the session's inputs ARE the stream.
// It records the tool's verdict; TLC (spec/Trace_Expect.tla) judges soundness (C19).
//
//	expectdrv run <sessions.ndjson> <out.ndjson> <timeout-ms> <parallel>
package main

import (
	"bufio"
	"context"
	"encoding/json"
	"fmt"
	"io"
	"log"
	"os"
	"strconv"
	"sync"
	"time"

	"verifharness/enc"
	"verifharness/mach"

	"github.com/Comcast/sheens/core"
	"github.com/Comcast/sheens/interpreters/ecmascript"
	"github.com/Comcast/sheens/tools/expect"
)

type T = enc.T
type O = enc.O

type outSpec struct {
	Pat   interface{} `json:"pat"`
	Guard interface{} `json:"guard"`
	Inv   bool        `json:"inv"`
}
type stepSpec struct {
	Lines []interface{} `json:"lines"`
	Outs  []outSpec     `json:"outs"`
	Long  *bool         `json:"long"` // timing sessions: the step has its own long timeout (true) or waits for the default (false)
}

// timing sessions: the echo process delays a marked line beyond the default timeout
const (
	slowDelay   = 700 * time.Millisecond
	longTimeout = 2200 * time.Millisecond
	echoScript  = `while IFS= read -r l; do case "$l" in *'"zz"'*) sleep 0.7;; esac; printf '%s\n' "$l"; done`
)

type sessSpec struct {
	Steps []stepSpec `json:"steps"`
}

func decodeOps(g interface{}) []mach.Op { return mach.DecOps(g) }

func sameOuts(a, b interface{}) bool {
	x, _ := json.Marshal(a)
	y, _ := json.Marshal(b)
	return string(x) == string(y)
}

func runOne(id int, raw []byte, timeout time.Duration) O {
	var ss sessSpec
	if err := json.Unmarshal(raw, &ss); err != nil {
		panic(err)
	}
	s := &expect.Session{Interpreters: core.InterpretersMap{"ecmascript": ecmascript.NewInterpreter()}, DefaultTimeout: timeout}
	timing := false
	lineNo := 0
	for _, st := range ss.Steps {
		iop := expect.IO{Timeout: timeout}
		if st.Long != nil {
			// own long timeout, or none (the session's default applies)
			timing = true
			iop.Timeout = 0
			if *st.Long {
				iop.Timeout = longTimeout
			}
		}
		for _, l := range st.Lines {
			t := l.([]interface{})
			if t[0] == "noise" {
				iop.Inputs = append(iop.Inputs, "this is {not json")
			} else if t[0] == "slow" {
				// the same message with a marker property no pattern looks at; the echo process holds it back
				m := enc.D(t[1]).(map[string]interface{})
				m["zz"] = float64(1)
				js, _ := json.Marshal(m)
				iop.Inputs = append(iop.Inputs, string(js))
			} else {
				js, _ := json.Marshal(enc.D(l))
				line := string(js)
				// (a JSON message is one whatever white space it starts with: every third line is indented)
				if lineNo++; lineNo%2 == 1 {
					line = []string{" ", "\t", "  "}[(lineNo/2)%3] + line
				}
				iop.Inputs = append(iop.Inputs, line)
			}
		}
		for _, o := range st.Outs {
			out := expect.Output{Pattern: enc.D(o.Pat), Inverted: o.Inv}
			if ops := decodeOps(o.Guard); ops != nil {
				if id%2 == 1 {
					// (a guard declines by returning null - or by ending without a word, in every other session)
					for k := range ops {
						if ops[k].Name == "retnull" {
							ops[k].Name = "retundef"
						}
					}
				}
				out.GuardSource = &core.ActionSource{Interpreter: "ecmascript", Source: mach.JS(ops)}
			}
			iop.OutputSet = append(iop.OutputSet, out)
		}
		// (two steps that expect the same may be written with ONE output set, the same slice: what the first step matched
		// must not count for the second)
		if k := len(s.IOs); k > 0 && len(iop.OutputSet) > 0 && sameOuts(ss.Steps[k-1].Outs, st.Outs) {
			iop.OutputSet = s.IOs[k-1].OutputSet
		}
		s.IOs = append(s.IOs, iop)
	}
	verdict, errtext := "pass", ""
	func() {
		defer func() {
			if r := recover(); r != nil {
				verdict, errtext = "panic", fmt.Sprint(r)
			}
		}()
		ctx, cancel := context.WithTimeout(context.Background(), 20*time.Second)
		defer cancel()
		var err error
		if timing {
			err = s.Run(ctx, "", "sh", "-c", echoScript)
		} else {
			err = s.Run(ctx, "", "cat")
		}
		if err != nil {
			verdict, errtext = "fail", err.Error()
		}
	}()
	var steps interface{}
	json.Unmarshal(raw, &steps)
	return O{"id": id, "steps": steps.(map[string]interface{})["steps"], "verdict": verdict, "errtext": errtext, "raw": string(raw)}
}

func main() {
	log.SetOutput(io.Discard)
	if len(os.Args) < 6 || os.Args[1] != "run" {
		fmt.Fprintln(os.Stderr, "usage: expectdrv run <sessions> <out> <timeout-ms> <parallel>")
		os.Exit(2)
	}
	in, err := os.Open(os.Args[2])
	check(err)
	ms, _ := strconv.Atoi(os.Args[4])
	par, _ := strconv.Atoi(os.Args[5])
	var lines [][]byte
	sc := bufio.NewScanner(in)
	sc.Buffer(make([]byte, 1<<20), 1<<26)
	for sc.Scan() {
		lines = append(lines, append([]byte{}, sc.Bytes()...))
	}
	check(sc.Err())
	res := make([]O, len(lines))
	var wg sync.WaitGroup
	sem := make(chan bool, par)
	for i := range lines {
		wg.Add(1)
		sem <- true
		go func(i int) {
			defer wg.Done()
			res[i] = runOne(i+1, lines[i], time.Duration(ms)*time.Millisecond)
			<-sem
		}(i)
	}
	wg.Wait()
	f, err := os.Create(os.Args[3])
	check(err)
	w := bufio.NewWriter(f)
	e := json.NewEncoder(w)
	e.SetEscapeHTML(false)
	for _, r := range res {
		check(e.Encode(r))
	}
	w.Flush()
	f.Close()
}

func check(err error) {
	if err != nil {
		fmt.Fprintln(os.Stderr, "expectdrv:", err)
		os.Exit(2)
	}
}
