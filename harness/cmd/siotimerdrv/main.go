// siotimerdrv drives the timers of the single-loop crew (sio/timers.go, sio/timersspec.go)
// through a real crew's timers machine and records call/ret/fire/hook/snap events for the
// TLC judge (spec/Trace_Timers.tla, C17).  Gate schedules exported from spec/Timers.tla are
// replayed by holding timer goroutines at the verif-tag hooks of sio/timers.go.
//
//	siotimerdrv sched <schedules.ndjson> <out.ndjson> <reps>
//	siotimerdrv stress <n> <seed> <out.ndjson>
//	siotimerdrv restart <n> <seed> <out.ndjson>
package main

import (
	"bufio"
	"context"
	"encoding/json"
	"fmt"
	"io"
	"log"
	"math/rand"
	"os"
	"sort"
	"strconv"
	"sync"
	"time"

	"verifharness/hook"

	"github.com/Comcast/sheens/core"
	"github.com/Comcast/sheens/crew"
	"github.com/Comcast/sheens/sio"
)

type O = map[string]interface{}
type T = []interface{}

const shortDelay = 30 * time.Millisecond
const longDelay = time.Hour

type recorder struct {
	sync.Mutex
	seq    int
	events T
	t0     time.Time
}

func (r *recorder) add(ev O) {
	r.Lock()
	r.seq++
	ev["seq"] = r.seq
	ev["t"] = int(time.Since(r.t0) / time.Millisecond)
	r.events = append(r.events, ev)
	r.Unlock()
}

type coup struct {
	in  chan interface{}
	out chan *sio.Result
}

func (c *coup) Start(context.Context) error { return nil }
func (c *coup) IO(context.Context) (chan interface{}, chan *sio.Result, error) {
	return c.in, c.out, nil
}
func (c *coup) Read(context.Context) (map[string]*crew.Machine, error) { return nil, nil }
func (c *coup) Stop(context.Context) error                             { return nil }

type inst struct {
	arrived chan string
	release chan bool
}

type harness struct {
	sync.Mutex
	rec     *recorder
	c       *sio.Crew
	cp      *coup
	cancel  context.CancelFunc
	ctx     context.Context
	inst    map[*sio.TimerEntry]int
	ctl     map[int]*inst
	at      map[int]time.Time
	n       int
	freeRun bool
	opn     int
	shadow  map[string]*crew.Machine
	mu      sync.Mutex // serialises ProcessMsg calls (the crew is a single loop)
}

func (h *harness) boot(from map[string]*crew.Machine) {
	h.ctx, h.cancel = context.WithCancel(context.Background())
	// (the crew's input has no buffer and its reader takes its time: a timer that fires while the reader is busy waits for it)
	h.cp = &coup{make(chan interface{}), make(chan *sio.Result, 1024)}
	c, err := sio.NewCrew(h.ctx, &sio.CrewConf{Id: "verif", Ctl: &core.Control{Limit: 100}}, h.cp)
	check(err)
	h.c = c
	mids := []string{}
	for mid := range from {
		mids = append(mids, mid)
	}
	sort.Strings(mids)
	for _, mid := range mids {
		check(c.SetMachine(h.ctx, mid, from[mid].SpecSource, from[mid].State))
	}
	// firings arrive on the crew's input channel
	go func(in chan interface{}, ctx context.Context) {
		for {
			select {
			case m := <-in:
				mm, _ := m.(map[string]interface{})
				tok := 0
				if f, is := mm["token"].(float64); is {
					tok = int(f)
				}
				h.rec.add(O{"ev": "fire", "token": tok, "id": mm["id"]})
				time.Sleep(time.Millisecond)
			case <-ctx.Done():
				return
			}
		}
	}(h.cp.in, h.ctx)
}

func newHarness(gated bool) *harness {
	h := &harness{rec: &recorder{t0: time.Now()}, inst: map[*sio.TimerEntry]int{}, ctl: map[int]*inst{}, at: map[int]time.Time{},
		freeRun: !gated, shadow: map[string]*crew.Machine{}}
	hook.Set(func(point string, args ...interface{}) {
		switch point {
		case "timer-added":
			h.Lock()
			h.n++
			te := args[1].(*sio.TimerEntry)
			h.inst[te] = h.n
			h.at[h.n] = te.At
			h.ctl[h.n] = &inst{arrived: make(chan string, 1), release: make(chan bool, 1)}
			h.Unlock()
		case "timer-wait", "timer-due", "timer-emitted", "timer-cleaned", "timer-cancel-seen", "timer-abandoned":
			h.Lock()
			u := h.inst[args[1].(*sio.TimerEntry)]
			c := h.ctl[u]
			free := h.freeRun
			h.Unlock()
			h.rec.add(O{"ev": "hook", "point": point, "u": u})
			if free || c == nil || u == 0 {
				return
			}
			c.arrived <- point
			<-c.release
		}
	})
	h.boot(nil)
	return h
}

// fold applies reported changes to the shadow store (as sio.Stdio does).
func (h *harness) fold(r *sio.Result) {
	for mid, m := range r.Changed {
		if m.Deleted {
			delete(h.shadow, mid)
			continue
		}
		n, have := h.shadow[mid]
		if !have {
			n = &crew.Machine{}
			h.shadow[mid] = n
		}
		if m.State != nil {
			n.State = m.State.Copy()
		}
		if m.SpecSrc != nil {
			n.SpecSource = m.SpecSrc.Copy()
		}
	}
}

func (h *harness) request(kind, id string, short bool) string {
	h.Lock()
	h.opn++
	op := h.opn
	h.Unlock()
	d := longDelay
	if short {
		d = shortDelay
	}
	h.rec.add(O{"ev": "call", "op": op, "kind": kind, "id": id, "d": int(d / time.Millisecond)})
	var msg map[string]interface{}
	if kind == "add" {
		msg = map[string]interface{}{"to": "timers", "makeTimer": map[string]interface{}{"in": d.String(), "id": id,
			"msg": map[string]interface{}{"token": float64(op), "id": id}}}
	} else {
		msg = map[string]interface{}{"to": "timers", "cancelTimer": id}
	}
	h.mu.Lock()
	r, err := h.c.ProcessMsg(h.ctx, msg)
	res := "ok"
	if err != nil {
		res = "error"
	} else {
		h.fold(r)
		if m := h.c.Machines[sio.TimersMachine]; m != nil && m.State != nil {
			if _, have := m.State.Bs["error"]; have {
				// the request was not taken, or failed: not accepted
				res = "notfound"
				if kind == "add" {
					res = "rejected"
				}
			}
		}
	}
	h.mu.Unlock()
	h.rec.add(O{"ev": "ret", "op": op, "res": res})
	return res
}

func (h *harness) pendingIds() T {
	ids := []string{}
	h.mu.Lock()
	if m := h.c.Machines[sio.TimersMachine]; m != nil {
		js, _ := json.Marshal(m.State.Bs["timers"])
		var mm map[string]interface{}
		json.Unmarshal(js, &mm)
		for id := range mm {
			ids = append(ids, id)
		}
	}
	h.mu.Unlock()
	sort.Strings(ids)
	out := T{}
	for _, id := range ids {
		out = append(out, id)
	}
	return out
}

func (h *harness) finish(id int, kind string, raw interface{}, realised bool) O {
	h.Lock()
	h.freeRun = true
	for _, c := range h.ctl {
		select {
		case c.release <- true:
		default:
		}
	}
	h.Unlock()
	time.Sleep(shortDelay*2 + 40*time.Millisecond)
	h.Lock()
	for _, c := range h.ctl {
		select {
		case <-c.arrived:
			c.release <- true
		default:
		}
	}
	h.Unlock()
	time.Sleep(20 * time.Millisecond)
	h.rec.add(O{"ev": "snap", "pending": h.pendingIds()})
	h.cancel()
	js, _ := json.Marshal(raw)
	h.rec.Lock()
	evs := h.rec.events
	h.rec.Unlock()
	return O{"id": id, "kind": kind, "impl": "sio", "events": evs, "realised": realised, "outcome": "returned", "raw": string(js),
		"short": int(shortDelay / time.Millisecond), "long": int(longDelay / time.Millisecond)}
}

func (h *harness) waitFor(u int, want ...string) bool {
	h.Lock()
	c := h.ctl[u]
	h.Unlock()
	if c == nil {
		return false
	}
	select {
	case got := <-c.arrived:
		for _, w := range want {
			if got == w {
				return true
			}
		}
		return false
	case <-time.After(80 * time.Millisecond):
		return false
	}
}

func (h *harness) release(u int) {
	h.Lock()
	c := h.ctl[u]
	h.Unlock()
	if c != nil {
		select {
		case c.release <- true:
		default:
		}
	}
}

func replay(id int, sched [][]interface{}) O {
	h := newHarness(true)
	realised := true
	for _, st := range sched {
		kind := st[0].(string)
		x := int(st[1].(float64))
		switch kind {
		case "add":
			before := h.n
			h.request("add", "t"+strconv.Itoa(x), true)
			if h.n > before {
				if !h.waitFor(before+1, "timer-wait") {
					realised = false
				}
			}
		case "rem":
			h.request("rem", "t"+strconv.Itoa(x), true)
		case "tick":
			h.Lock()
			at, have := h.at[x]
			h.Unlock()
			if !have {
				realised = false
				break
			}
			if d := time.Until(at); d > 0 {
				time.Sleep(d)
			}
			time.Sleep(3 * time.Millisecond)
		case "due":
			h.release(x)
			realised = h.waitFor(x, "timer-due")
		case "cancel-seen":
			h.release(x)
			realised = h.waitFor(x, "timer-cancel-seen")
		case "emitted":
			h.release(x)
			realised = h.waitFor(x, "timer-emitted")
		case "cleaned":
			h.release(x)
			realised = h.waitFor(x, "timer-cleaned")
		}
		if !realised {
			break
		}
	}
	return h.finish(id, "timer-sched", O{"sched": sched}, realised)
}

func stress(id int, rng *rand.Rand) O {
	h := newHarness(false)
	plan := T{}
	for i, n := 0, 4+rng.Intn(8); i < n; i++ {
		kind, tid, short := "add", "t"+strconv.Itoa(1+rng.Intn(2)), true
		if rng.Intn(3) == 0 {
			kind = "rem"
		}
		if rng.Intn(4) == 0 {
			short = false
		}
		plan = append(plan, T{kind, tid, short})
		h.request(kind, tid, short)
		time.Sleep(time.Duration(rng.Intn(25)) * time.Millisecond)
	}
	return h.finish(id, "timer-stress", O{"plan": plan}, true)
}

// lockheld: a due timer publishes its change under the crew's mutex; the harness holds that mutex across the
// due time (the mutex is the scheduler gate), issues requests for the id meanwhile, then lets go.  A request
// that was accepted as a cancellation must not be followed by the firing, and vice versa.
func lockheld(id int, rng *rand.Rand) O {
	h := newHarness(false)
	h.request("add", "t1", true)
	time.Sleep(time.Duration(rng.Intn(10)) * time.Millisecond)
	h.c.Lock()
	h.rec.add(O{"ev": "hook", "point": "crew-lock-held", "u": 0})
	time.Sleep(shortDelay + time.Duration(5+rng.Intn(15))*time.Millisecond)
	plan := rng.Intn(4)
	switch plan {
	case 0:
		h.request("rem", "t1", true)
	case 1:
		h.request("rem", "t1", true)
		h.request("add", "t1", rng.Intn(2) == 0)
	case 2:
		h.request("add", "t1", true)
		h.request("rem", "t1", true)
	}
	h.rec.add(O{"ev": "hook", "point": "crew-lock-released", "u": 0})
	h.c.Unlock()
	time.Sleep(5 * time.Millisecond)
	if rng.Intn(2) == 0 {
		h.request("rem", "t1", true)
	}
	return h.finish(id, "timer-lockheld", O{"plan": plan}, true)
}

// restart: the crew is stopped between creation and due time, its reported changes have been
// folded into a store, and a new crew is booted from the store.
func restart(id int, rng *rand.Rand) O {
	h := newHarness(false)
	began := time.Now()
	n := 1 + rng.Intn(3)
	for i := 0; i < n; i++ {
		h.request("add", "t"+strconv.Itoa(i+1), rng.Intn(4) > 0)
	}
	if rng.Intn(2) == 0 {
		h.request("rem", "t1", true)
	}
	time.Sleep(time.Duration(rng.Intn(8)) * time.Millisecond)
	if time.Since(began) > shortDelay-14*time.Millisecond {
		// (the machine is so busy that a timer may be due by now: a restart after a firing that no message has reported yet
		// is another story - the store still has the timer -, so this history goes without its restart)
		return h.finish(id, "timer-restart", O{"n": n, "restart": "skipped"}, true)
	}
	// stop the first crew (its timer goroutines end with its context) and boot the second from the store
	h.mu.Lock()
	js, err := json.Marshal(h.shadow)
	check(err)
	h.cancel()
	h.rec.add(O{"ev": "hook", "point": "restart", "u": 0})
	var store map[string]*crew.Machine
	check(json.Unmarshal(js, &store))
	h.boot(store)
	h.mu.Unlock()
	if rng.Intn(2) == 0 {
		h.request("rem", "t2", true)
	}
	return h.finish(id, "timer-restart", O{"n": n}, true)
}

// writeback: the timers machine's reported state is written back to the live crew through the
// captain (as a host re-applying persisted state would); pending timers must still fire once.
func writeback(id int, rng *rand.Rand) O {
	h := newHarness(false)
	n := 1 + rng.Intn(3)
	variant := rng.Intn(3)
	// A state that is written back re-creates the timers it lists: it is only written back when it cannot be stale (no
	// timer due soon).  The reset (no state given) keeps the live timers, whatever they are: it is also done while
	// timers become due, when their goroutines use the map that the write-back fills.
	for i := 0; i < n; i++ {
		h.request("add", "t"+strconv.Itoa(i+1), variant == 0)
	}
	began := time.Now()
	if variant == 0 {
		time.Sleep(shortDelay - time.Duration(4+rng.Intn(8))*time.Millisecond)
	}
	h.mu.Lock()
	var upd interface{}
	switch m, have := h.shadow[sio.TimersMachine]; {
	case variant == 0:
		// the "reset" of SetMachine's documentation: no state given, the timers are kept
		upd = map[string]interface{}{}
	case have && m.State != nil:
		js, _ := json.Marshal(m.State)
		var st interface{}
		json.Unmarshal(js, &st)
		upd = map[string]interface{}{"state": st}
	}
	for upd != nil {
		h.rec.add(O{"ev": "hook", "point": "writeback", "u": 0})
		r, err := h.c.ProcessMsg(h.ctx, map[string]interface{}{"to": "captain", "update": map[string]interface{}{sio.TimersMachine: upd}})
		if err == nil {
			h.fold(r)
		}
		// the reset is repeated across the due time of the timers
		if variant != 0 || time.Since(began) > shortDelay+12*time.Millisecond {
			break
		}
		h.mu.Unlock()
		h.mu.Lock()
	}
	h.mu.Unlock()
	if rng.Intn(2) == 0 {
		h.request("rem", "t1", true)
	}
	return h.finish(id, "timer-writeback", O{"n": n, "variant": variant}, true)
}

func main() {
	log.SetOutput(io.Discard)
	switch os.Args[1] {
	case "sched":
		in, err := os.Open(os.Args[2])
		check(err)
		out := newOut(os.Args[3])
		defer out.close()
		reps, _ := strconv.Atoi(os.Args[4])
		sc := bufio.NewScanner(in)
		sc.Buffer(make([]byte, 1<<20), 1<<26)
		id := 0
		for sc.Scan() {
			var s struct {
				Sched [][]interface{} `json:"sched"`
			}
			check(json.Unmarshal(sc.Bytes(), &s))
			for r := 0; r < reps; r++ {
				id++
				out.write(replay(id, s.Sched))
			}
		}
	case "stress", "restart", "writeback", "lockheld":
		n, _ := strconv.Atoi(os.Args[2])
		seed, _ := strconv.Atoi(os.Args[3])
		rng := rand.New(rand.NewSource(int64(seed)))
		out := newOut(os.Args[4])
		defer out.close()
		for id := 1; id <= n; id++ {
			switch os.Args[1] {
			case "stress":
				out.write(stress(id, rng))
			case "restart":
				out.write(restart(id, rng))
			case "lockheld":
				out.write(lockheld(id, rng))
			default:
				out.write(writeback(id, rng))
			}
		}
	}
}

type outW struct {
	f *os.File
	w *bufio.Writer
	e *json.Encoder
}

func newOut(path string) *outW {
	f, err := os.Create(path)
	check(err)
	w := bufio.NewWriterSize(f, 1<<20)
	e := json.NewEncoder(w)
	e.SetEscapeHTML(false)
	return &outW{f, w, e}
}
func (o *outW) write(c O) { check(o.e.Encode(c)) }
func (o *outW) close()    { o.w.Flush(); o.f.Close() }
func check(err error) {
	if err != nil {
		fmt.Fprintln(os.Stderr, "siotimerdrv:", err)
		os.Exit(2)
	}
}
