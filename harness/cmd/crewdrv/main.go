// crewdrv drives the real sio.Crew with recorder machines and records, per processed
// message, what the crew did (C14 routing / emission accounting, C15 reported changes
// and restart).  Presentations and dequeues are observed through the verif-tag hooks
// of sio/crew.go; the shadow store is folded from Result.Changed exactly as sio.Stdio
// folds it.  No property logic here: TLC (spec/Trace_Crew.tla) judges.
//
//	crewdrv gen <route|hist> <n> <seed> <out.ndjson>
//	crewdrv univ <exported.ndjson> <out.ndjson>
//	crewdrv replay <replay.json> <out.ndjson>
package main

import (
	"bufio"
	"context"
	"encoding/json"
	"fmt"
	"io"
	"log"
	"math/rand"
	"os"
	"path/filepath"
	"sort"
	"strconv"
	"strings"
	"time"

	"verifharness/enc"
	"verifharness/hook"

	"github.com/Comcast/sheens/core"
	"github.com/Comcast/sheens/crew"
	"github.com/Comcast/sheens/sio"
)

type T = enc.T
type O = enc.O

const recSrc = `
var bs = _.bindings; var m = bs["?m"]; delete bs["?m"];
var id = (m && typeof m === 'object' && m.id !== undefined) ? m.id : JSON.stringify(m);
bs.log = (bs.log || []).concat([id]);
var outs = (bs.table || {})[id] || [];
for (var i = 0; i < outs.length; i++) {
  var o = JSON.parse(JSON.stringify(outs[i]));
  if (o && typeof o === 'object' && !(o instanceof Array)) { o.spec = "%s"; }
  _.out(o);
}
return bs;
`

// recorderSpec: every message presented to the machine is appended to bindings.log and
// the messages listed under bindings.table[id] are emitted (tagged with the spec's name).
func recorderSpec(tag string) *core.Spec {
	return &core.Spec{
		Name: "rec" + tag,
		Nodes: map[string]*core.Node{
			"start": {Branches: &core.Branches{Type: "message", Branches: []*core.Branch{{Pattern: "?m", Target: "rec"}}}},
			"rec": {ActionSource: &core.ActionSource{Interpreter: "ecmascript", Source: fmt.Sprintf(recSrc, "rec"+tag)},
				Branches: &core.Branches{Type: "bindings", Branches: []*core.Branch{{Target: "start"}}}},
		},
	}
}

type coup struct {
	in  chan interface{}
	out chan *sio.Result
}

func (c *coup) Start(context.Context) error { return nil }
func (c *coup) IO(context.Context) (chan interface{}, chan *sio.Result, error) {
	return c.in, c.out, nil
}
func (c *coup) Read(context.Context) (map[string]*crew.Machine, error) { return nil, nil }
func (c *coup) Stop(context.Context) error                             { return nil }

func newCrew(ctx context.Context) *sio.Crew {
	c, err := sio.NewCrew(ctx, &sio.CrewConf{Id: "verif", Ctl: &core.Control{Limit: 100}}, &coup{make(chan interface{}, 1024), make(chan *sio.Result, 1024)})
	check(err)
	return c
}

// ---------------------------------------------------------------- observation through hooks

type obs struct {
	events T // ["dequeue", msg] and ["present", mid, msg] in the order they happened
}

var cur *obs

func msgID(m interface{}) string {
	if mm, is := m.(map[string]interface{}); is {
		if id, is := mm["id"].(string); is {
			return id
		}
	}
	js, _ := json.Marshal(m)
	return string(js)
}

func install() {
	hook.Set(func(point string, args ...interface{}) {
		if cur == nil {
			return
		}
		switch point {
		case "dequeue":
			cur.events = append(cur.events, T{"dequeue", "", enc.V(canon(args[0]))})
		case "present":
			cur.events = append(cur.events, T{"present", args[0].(string), enc.V(canon(args[1]))})
		}
	})
}

func canon(x interface{}) interface{} {
	js, err := json.Marshal(x)
	if err != nil {
		return "unserialisable"
	}
	var y interface{}
	json.Unmarshal(js, &y)
	return y
}

// ---------------------------------------------------------------- snapshots

type rec struct {
	Present bool        `json:"present"`
	Node    string      `json:"node"`
	Bs      interface{} `json:"bs"`
	Spec    string      `json:"spec"`
}

func specName(ss *crew.SpecSource) string {
	if ss == nil {
		return ""
	}
	if ss.Inline != nil {
		return ss.Inline.Name
	}
	return ss.Name + ss.URL
}

func stateOf(st *core.State) (string, interface{}) {
	// a record without state, or with an empty node name, denotes the default state start/{}
	if st == nil {
		return "start", O{}
	}
	node := st.NodeName
	if node == "" {
		node = "start"
	}
	bs := canon(map[string]interface{}(st.Bs))
	m, _ := bs.(map[string]interface{})
	o := O{}
	for k, v := range m {
		o[k] = enc.V(v)
	}
	return node, o
}

func snapLive(c *sio.Crew) O {
	out := O{}
	for mid, m := range c.Machines {
		if mid == sio.CaptainMachine {
			continue
		}
		node, bs := stateOf(m.State)
		out[mid] = rec{true, node, bs, specName(m.SpecSource)}
	}
	return out
}

func snapShadow(sh map[string]*crew.Machine) O {
	out := O{}
	for mid, m := range sh {
		node, bs := stateOf(m.State)
		out[mid] = rec{true, node, bs, specName(m.SpecSource)}
	}
	return out
}

// fold applies a Result's reported changes to the shadow store, as sio.Stdio does.
func fold(sh map[string]*crew.Machine, r *sio.Result) {
	for mid, m := range r.Changed {
		if m.Deleted {
			delete(sh, mid)
			continue
		}
		n, have := sh[mid]
		if !have {
			n = &crew.Machine{}
			sh[mid] = n
		}
		if m.State != nil {
			n.State = m.State.Copy()
		}
		if m.SpecSrc != nil {
			n.SpecSource = m.SpecSrc.Copy()
		}
	}
}

// stdioStore gives the reports to a real Stdio coupling and returns the state it wrote.
func stdioStore(results []*sio.Result) (map[string]*crew.Machine, bool) {
	dir, err := os.MkdirTemp("", "verif-stdio")
	check(err)
	defer os.RemoveAll(dir)
	ctx, cancel := context.WithCancel(context.Background())
	defer cancel()
	st := sio.NewStdio(false)
	st.In, st.Out = strings.NewReader(""), io.Discard
	st.StateOutputFilename = filepath.Join(dir, "state.json")
	_, out, err := st.IO(ctx)
	check(err)
	for _, r := range results {
		if r != nil {
			out <- r
		}
	}
	out <- nil // (the coupling's writer ends at a nil report)
	done := make(chan error, 1)
	go func() { done <- st.Stop(ctx) }()
	select {
	case err := <-done:
		if err != nil {
			return nil, false
		}
	case <-time.After(10 * time.Second):
		return nil, false
	}
	js, err := os.ReadFile(st.StateOutputFilename)
	if err != nil {
		return map[string]*crew.Machine{}, true
	}
	var m map[string]*crew.Machine
	check(json.Unmarshal(js, &m))
	return m, true
}

func copyShadow(sh map[string]*crew.Machine) map[string]*crew.Machine {
	// through JSON, as a store on disk would hold it
	js, err := json.Marshal(sh)
	check(err)
	var out map[string]*crew.Machine
	check(json.Unmarshal(js, &out))
	return out
}

func encBatches(bs [][]interface{}) T {
	out := T{}
	for _, b := range bs {
		eb := T{}
		for _, m := range b {
			eb = append(eb, enc.V(canon(m)))
		}
		out = append(out, eb)
	}
	return out
}

// ---------------------------------------------------------------- a history

type machInit struct {
	Mid   string                 `json:"mid"`
	Tag   string                 `json:"tag"`
	Table map[string]interface{} `json:"table"`
}
type history struct {
	Inits []machInit    `json:"inits"`
	Msgs  []interface{} `json:"msgs"`
}

func mkState(table map[string]interface{}) *core.State {
	if table == nil {
		table = map[string]interface{}{}
	}
	return &core.State{NodeName: "start", Bs: map[string]interface{}{"table": enc.DeepCopy(table), "log": []interface{}{}}}
}

func step(ctx context.Context, c *sio.Crew, msg interface{}) (O, *sio.Result) {
	cur = &obs{T{}}
	var r *sio.Result
	var err error
	outcome, errtext := "returned", ""
	func() {
		defer func() {
			if x := recover(); x != nil {
				outcome, errtext = "panicked", fmt.Sprint(x)
			}
		}()
		r, err = c.ProcessMsg(ctx, enc.DeepCopy(msg))
	}()
	o := O{"msg": enc.V(msg), "outcome": outcome, "errtext": errtext, "events": cur.events, "emitted": T{}}
	cur = nil
	if err != nil {
		o["outcome"], o["errtext"] = "error", err.Error()
	}
	if r != nil {
		o["emitted"] = encBatches(r.Emitted)
	}
	return o, r
}

func runHistory(id int, kind string, h *history, restarts bool) O {
	ctx, cancel := context.WithCancel(context.Background())
	defer cancel()
	c := newCrew(ctx)
	tables := O{}
	ids := []string{}
	for _, in := range h.Inits {
		check(c.SetMachine(ctx, in.Mid, &crew.SpecSource{Inline: recorderSpec(in.Tag)}, mkState(in.Table)))
		ids = append(ids, in.Mid)
	}
	sort.Strings(ids)
	shadow := map[string]*crew.Machine{}
	live0 := snapLive(c)
	steps := T{}
	var shadows []map[string]*crew.Machine
	var results []*sio.Result
	for _, m := range h.Msgs {
		o, r := step(ctx, c, m)
		if r != nil {
			fold(shadow, r)
		}
		o["live"] = snapLive(c)
		o["shadow"] = snapShadow(shadow)
		// the emission tables, for the judge's expectation (they live in the machines' bindings)
		steps = append(steps, o)
		shadows = append(shadows, copyShadow(shadow))
		results = append(results, r)
	}
	_ = tables
	rs := T{}
	if restarts {
		for i := 0; i < len(h.Msgs)-1; i++ {
			// boot a second crew from the store as it was after message i, the way siostd does
			ctx2, cancel2 := context.WithCancel(context.Background())
			c2 := newCrew(ctx2)
			bootErr := ""
			mids := []string{}
			for mid := range shadows[i] {
				mids = append(mids, mid)
			}
			sort.Strings(mids)
			for _, mid := range mids {
				m := shadows[i][mid]
				if err := c2.SetMachine(ctx2, mid, m.SpecSource, m.State); err != nil {
					bootErr = err.Error()
				}
			}
			outsOrig, outsNew := T{}, T{}
			// the restarted crew's host goes on with the store it booted from: what the new crew reports is folded into it
			// (the first report comes with the first message the new crew processes)
			shadow2 := copyShadow(shadows[i])
			for j := i + 1; j < len(h.Msgs); j++ {
				o2, r2 := step(ctx2, c2, h.Msgs[j])
				if r2 != nil {
					fold(shadow2, r2)
				}
				outsNew = append(outsNew, o2["emitted"])
				outsOrig = append(outsOrig, steps[j].(O)["emitted"])
			}
			rs = append(rs, O{"at": i + 1, "bootErr": bootErr, "outsOrig": outsOrig, "outsNew": outsNew,
				"liveOrigEnd": steps[len(steps)-1].(O)["live"], "liveNewEnd": snapLive(c2), "shadowNewEnd": snapShadow(shadow2)})
			cancel2()
		}
	}
	raw, _ := json.Marshal(h)
	res := O{"id": id, "kind": kind, "live0": live0, "steps": steps, "restarts": rs, "raw": string(raw)}
	if restarts && len(h.Msgs) > 0 {
		// the reference consumer: the same reports given to a real sio.Stdio, which folds them into the state it writes out;
		// its state file, read back, must be the store that this driver's own fold arrives at
		if st, ok := stdioStore(results); ok {
			res["stdioStore"] = snapShadow(st)
		}
	}
	return res
}

// ---------------------------------------------------------------- generators

var rng *rand.Rand

func pickS(xs []string) string { return xs[rng.Intn(len(xs))] }

var seq int

func newID(prefix string) string { seq++; return prefix + strconv.Itoa(seq) }

func genTo(mids []string) (interface{}, bool) {
	all := append([]string{}, mids...)
	switch r := rng.Intn(14); {
	case r < 3:
		return nil, false
	case r < 6:
		return pickS(all), true
	case r == 6:
		return "*", true
	case r == 7:
		return "nobody", true
	case r == 8:
		return []interface{}{pickS(all), pickS(all)}, true // possibly repeated
	case r == 9:
		// (members that are not ids at all: numbers, null, objects, lists)
		return []interface{}{pickS(all), "nobody", float64(7), nil, map[string]interface{}{"mid": pickS(all)}, []interface{}{pickS(all)}, pickS(all)}, true
	case r == 10:
		return []interface{}{}, true
	case r == 11:
		return pickS([]string{"timers", "captain"}), true
	case r == 12:
		return float64(5), true
	default:
		return []interface{}{pickS(all)}, true
	}
}

func genMsg(mids []string, depth int, tables map[string]map[string]interface{}) interface{} {
	if rng.Intn(25) == 0 {
		return pickS([]string{"plain string", "other"})
	}
	m := map[string]interface{}{"id": newID("m"), "lvl": float64(depth)}
	if rng.Intn(8) == 0 {
		// properties with names that mean something elsewhere in the repository: a message is data, whatever its keys
		m[pickS([]string{"emit", "cop", "do", "update", "makeTimer", "ctl"})] = "x"
	}
	if to, have := genTo(mids); have {
		m["to"] = to
		if s, is := to.(string); is && (s == "timers" || s == "captain") {
			m["note"] = "not an op"
		}
	}
	// what machines emit when they see this message
	if depth < 2 {
		for _, mid := range mids {
			if rng.Intn(3) == 0 {
				outs := []interface{}{}
				for i, n := 0, 1+rng.Intn(2); i < n; i++ {
					outs = append(outs, genMsg(mids, depth+1, tables))
				}
				tables[mid][m["id"].(string)] = outs
			}
		}
	}
	return m
}

func genRoute(id int) O {
	seq = 0
	n := 1 + rng.Intn(4)
	mids := []string{"a", "b", "c", "d"}[:n]
	tables := map[string]map[string]interface{}{}
	for _, mid := range mids {
		tables[mid] = map[string]interface{}{}
	}
	h := &history{}
	for i, k := 0, 1+rng.Intn(3); i < k; i++ {
		h.Msgs = append(h.Msgs, genMsg(mids, 0, tables))
	}
	for _, mid := range mids {
		h.Inits = append(h.Inits, machInit{mid, "A", tables[mid]})
	}
	return runHistory(id, "route", h, false)
}

func inlineSpec(tag string) interface{} {
	js, _ := json.Marshal(&crew.SpecSource{Inline: recorderSpec(tag)})
	var x interface{}
	json.Unmarshal(js, &x)
	return x
}

// nanSpec: a machine whose action computes n/n for a message {"nan":n}: for n = 0 that is NaN, a number that is not JSON
// (the action fails, or the machine's state could never be reported or stored).
func nanSpec() interface{} {
	sp := &core.Spec{
		Name: "nan",
		Nodes: map[string]*core.Node{
			"start": {Branches: &core.Branches{Type: "message", Branches: []*core.Branch{{Pattern: map[string]interface{}{"nan": "?n"}, Target: "calc"}}}},
			"calc": {ActionSource: &core.ActionSource{Interpreter: "ecmascript", Source: "var bs = _.bindings; var n = bs['?n']; delete bs['?n']; bs.last = n; bs.unit = n / n; return bs;"},
				Branches: &core.Branches{Type: "bindings", Branches: []*core.Branch{{Target: "start"}}}},
		},
	}
	js, _ := json.Marshal(&crew.SpecSource{Inline: sp})
	var x interface{}
	json.Unmarshal(js, &x)
	return x
}

// diagSpec: a machine whose action ends without a branch to follow for a message {"diag":x} (it goes to the error node with
// the diagnostic bindings) and that recovers on {"retry":true} by looking INTO those bindings: what it finds there must not
// depend on whether the crew was restarted from the store in between.
func diagSpec() interface{} {
	sp := &core.Spec{
		Name: "diag",
		Nodes: map[string]*core.Node{
			"start": {Branches: &core.Branches{Type: "message", Branches: []*core.Branch{{Pattern: map[string]interface{}{"diag": "?x"}, Target: "note"}}}},
			"note": {ActionSource: &core.ActionSource{Interpreter: "ecmascript", Source: "var bs = _.bindings; bs.was = bs['?x']; delete bs['?x']; return bs;"},
				Branches: &core.Branches{Type: "bindings", Branches: []*core.Branch{{Target: "try"}}}},
			"try": {ActionSource: &core.ActionSource{Interpreter: "ecmascript", Source: "return _.bindings;"},
				Branches: &core.Branches{Type: "bindings", Branches: []*core.Branch{{Pattern: map[string]interface{}{"nope": float64(1)}, Target: "start"}}}},
			"error": {Branches: &core.Branches{Type: "message", Branches: []*core.Branch{{Pattern: map[string]interface{}{"retry": true}, Target: "triage"}}}},
			"triage": {Branches: &core.Branches{Type: "bindings", Branches: []*core.Branch{
				{Pattern: map[string]interface{}{"lastBindings": map[string]interface{}{"was": "?w"}}, Target: "recovered"},
				{Target: "lost"}}}},
			"recovered": {ActionSource: &core.ActionSource{Interpreter: "ecmascript", Source: "_.out({recovered: _.bindings['?w']}); return {};"},
				Branches: &core.Branches{Type: "bindings", Branches: []*core.Branch{{Target: "start"}}}},
			"lost": {},
		},
	}
	js, _ := json.Marshal(&crew.SpecSource{Inline: sp})
	var x interface{}
	json.Unmarshal(js, &x)
	return x
}

// brokenSpec: a spec source whose action does not compile
func brokenSpec() interface{} {
	return map[string]interface{}{"inline": map[string]interface{}{"name": "broken", "nodes": map[string]interface{}{
		"start": map[string]interface{}{"action": map[string]interface{}{"interpreter": "ecmascript", "source": "this is not ( javascript"}}}}}
}

// genHist: crew operations (through the captain) interleaved with ordinary messages.
func genHist(id int) O {
	seq = 0
	mids := []string{"a", "b"}
	h := &history{}
	tables := map[string]map[string]interface{}{"a": {}, "b": {}}
	if rng.Intn(2) == 0 {
		h.Inits = append(h.Inits, machInit{"a", "A", tables["a"]})
	}
	capOp := func() map[string]interface{} {
		mid := pickS(mids)
		op := map[string]interface{}{"id": newID("op"), "to": "captain"}
		switch rng.Intn(10) {
		case 8: // take the machine's spec away (a source that names nothing): it stops reacting, and the store has to know
			op["update"] = map[string]interface{}{mid: map[string]interface{}{"spec": map[string]interface{}{}}}
		case 9: // ... or a source with a name only
			op["update"] = map[string]interface{}{mid: map[string]interface{}{"spec": map[string]interface{}{"name": "x"}}}
			if rng.Intn(2) == 0 {
				op["delete"] = []interface{}{mid}
			}
		case 6: // replace (or create with) a spec that does not compile: the operation fails
			op["update"] = map[string]interface{}{mid: map[string]interface{}{"spec": brokenSpec()}}
		case 7: // the same, with a state
			op["update"] = map[string]interface{}{mid: map[string]interface{}{"spec": brokenSpec(),
				"state": map[string]interface{}{"node": "start", "bs": map[string]interface{}{"table": map[string]interface{}{}, "log": []interface{}{"bad" + newID("")}}}}}
		case 0, 1: // create / replace spec and state
			op["update"] = map[string]interface{}{mid: map[string]interface{}{"spec": inlineSpec(pickS([]string{"A", "B"})),
				"state": map[string]interface{}{"node": "start", "bs": map[string]interface{}{"table": map[string]interface{}{}, "log": []interface{}{"reset" + newID("")}}}}}
		case 2: // replace state only
			op["update"] = map[string]interface{}{mid: map[string]interface{}{
				"state": map[string]interface{}{"node": "start", "bs": map[string]interface{}{"table": map[string]interface{}{}, "log": []interface{}{"set" + newID("")}}}}}
		case 3: // replace spec only
			op["update"] = map[string]interface{}{mid: map[string]interface{}{"spec": inlineSpec(pickS([]string{"A", "B"}))}}
		case 4:
			op["delete"] = []interface{}{mid}
		case 5: // delete and re-create in one operation
			op["delete"] = []interface{}{mid}
			op["update"] = map[string]interface{}{pickS(mids): map[string]interface{}{"spec": inlineSpec("B")}}
		}
		return op
	}
	var creates []map[string]interface{}
	withNaN := rng.Intn(5) == 0
	if withNaN {
		h.Msgs = append(h.Msgs, map[string]interface{}{"id": newID("op"), "to": "captain", "update": map[string]interface{}{"z": map[string]interface{}{"spec": nanSpec()}}})
	}
	if rng.Intn(6) == 0 {
		// one machine goes and another comes in one operation (the crew is as big as before): the newcomer sees the next
		// unrouted message, the one that left does not
		if len(h.Inits) == 0 {
			h.Msgs = append(h.Msgs, map[string]interface{}{"id": newID("op"), "to": "captain", "update": map[string]interface{}{"a": map[string]interface{}{"spec": inlineSpec("A")}}})
		}
		h.Msgs = append(h.Msgs, map[string]interface{}{"id": newID("m")})
		h.Msgs = append(h.Msgs, map[string]interface{}{"id": newID("op"), "to": "captain", "delete": []interface{}{"a"}, "update": map[string]interface{}{"b": map[string]interface{}{"spec": inlineSpec("B")}}})
		h.Msgs = append(h.Msgs, map[string]interface{}{"id": newID("m")})
		if rng.Intn(2) == 0 {
			h.Msgs = append(h.Msgs, map[string]interface{}{"id": newID("m"), "to": "*"})
		}
	}
	withDiag := rng.Intn(5) == 0
	if withDiag {
		h.Msgs = append(h.Msgs, map[string]interface{}{"id": newID("op"), "to": "captain", "update": map[string]interface{}{"y": map[string]interface{}{"spec": diagSpec()}}})
		h.Msgs = append(h.Msgs, map[string]interface{}{"id": newID("m"), "to": "y", "diag": float64(1 + rng.Intn(3))})
	}
	for i, k := 0, 2+rng.Intn(4); i < k; i++ {
		if withDiag && rng.Intn(3) == 0 {
			h.Msgs = append(h.Msgs, map[string]interface{}{"id": newID("m"), "to": "y", pickS([]string{"retry", "retry", "diag"}): true})
			continue
		}
		if withNaN && rng.Intn(3) == 0 {
			// (unrouted: the recorders see it, too, and their changes have to be reported whatever becomes of z)
			h.Msgs = append(h.Msgs, map[string]interface{}{"id": newID("m"), "nan": float64(rng.Intn(2))})
			continue
		}
		if len(creates) > 0 && rng.Intn(5) == 0 {
			// delete a machine and, in a later message, create it again exactly as it was created before
			prev := creates[rng.Intn(len(creates))]
			for mid := range prev["update"].(map[string]interface{}) {
				h.Msgs = append(h.Msgs, map[string]interface{}{"id": newID("op"), "to": "captain", "delete": []interface{}{mid}})
			}
			again := enc.DeepCopy(prev).(map[string]interface{})
			again["id"] = newID("op")
			h.Msgs = append(h.Msgs, again)
			continue
		}
		switch rng.Intn(6) {
		case 5: // something the captain cannot execute: not an operation at all, or a malformed one
			switch rng.Intn(6) {
			case 5: // ... nor can the captain be sent away (its state is not reported: a rebuilt crew has a captain at its post)
				h.Msgs = append(h.Msgs, map[string]interface{}{"id": newID("op"), "to": "captain", "update": map[string]interface{}{"captain": map[string]interface{}{
					"state": map[string]interface{}{"node": pickS([]string{"gone", "do", "start"}), "bs": map[string]interface{}{"note": "moved"}}}}})
			case 3, 4: // the crew's own machines cannot be deleted (a crew rebuilt from the store always has them)
				del := []interface{}{pickS([]string{"captain", "timers"})}
				if rng.Intn(3) == 0 {
					del = append([]interface{}{pickS(mids)}, del...)
				}
				h.Msgs = append(h.Msgs, map[string]interface{}{"id": newID("op"), "to": "captain", "delete": del})
			case 0:
				h.Msgs = append(h.Msgs, map[string]interface{}{"id": newID("m"), "to": "captain", "note": "not an op"})
			case 1:
				h.Msgs = append(h.Msgs, map[string]interface{}{"id": newID("op"), "to": "captain", "delete": "nosuch"})
			default:
				h.Msgs = append(h.Msgs, map[string]interface{}{"id": newID("op"), "to": "captain", "update": "everything"})
			}
		case 0, 1:
			op := capOp()
			if u, is := op["update"].(map[string]interface{}); is && op["delete"] == nil {
				for _, v := range u {
					if _, full := v.(map[string]interface{})["spec"]; full {
						if _, st := v.(map[string]interface{})["state"]; st {
							creates = append(creates, op)
						}
					}
				}
			}
			h.Msgs = append(h.Msgs, op)
		case 2: // a machine that emits captain operations
			m := map[string]interface{}{"id": newID("m"), "to": pickS(mids)}
			outs := []interface{}{capOp()}
			if rng.Intn(2) == 0 {
				outs = append(outs, capOp())
			}
			// the emission table must be in the machine's bindings: set it with a state update first
			target := m["to"].(string)
			h.Msgs = append(h.Msgs, map[string]interface{}{"id": newID("op"), "to": "captain", "update": map[string]interface{}{target: map[string]interface{}{
				"spec":  inlineSpec("A"),
				"state": map[string]interface{}{"node": "start", "bs": map[string]interface{}{"table": map[string]interface{}{m["id"].(string): outs}, "log": []interface{}{}}}}}})
			h.Msgs = append(h.Msgs, m)
		default:
			m := map[string]interface{}{"id": newID("m")}
			if rng.Intn(2) == 0 {
				m["to"] = pickS(mids)
			}
			h.Msgs = append(h.Msgs, m)
		}
	}
	return runHistory(id, "hist", h, true)
}

func main() {
	log.SetOutput(io.Discard)
	install()
	switch os.Args[1] {
	case "gen":
		mode := os.Args[2]
		n, _ := strconv.Atoi(os.Args[3])
		seed, _ := strconv.Atoi(os.Args[4])
		rng = rand.New(rand.NewSource(int64(seed)))
		out := newOut(os.Args[5])
		defer out.close()
		for id := 1; id <= n; id++ {
			if mode == "route" {
				out.write(genRoute(id))
			} else {
				out.write(genHist(id))
			}
		}
	case "univ":
		// histories of crew operations enumerated by TLC (spec/SioCrew.tla): operations between two reports
		// happen within one processed message (a carrier machine z emits them as one batch)
		in, err := os.Open(os.Args[2])
		check(err)
		out := newOut(os.Args[3])
		defer out.close()
		sc := bufio.NewScanner(in)
		sc.Buffer(make([]byte, 1<<20), 1<<26)
		id := 0
		for sc.Scan() {
			var c struct {
				Hist [][]string `json:"hist"`
			}
			check(json.Unmarshal(sc.Bytes(), &c))
			id++
			seq = 0
			toMsg := func(op []string) map[string]interface{} {
				switch op[0] {
				case "set":
					u := map[string]interface{}{}
					if op[2] != "none" {
						u["spec"] = inlineSpec(op[2])
					}
					if op[3] != "none" {
						u["state"] = map[string]interface{}{"node": "start", "bs": map[string]interface{}{"table": map[string]interface{}{}, "log": []interface{}{op[3]}}}
					}
					return map[string]interface{}{"id": newID("op"), "to": "captain", "update": map[string]interface{}{op[1]: u}}
				case "del":
					return map[string]interface{}{"id": newID("op"), "to": "captain", "delete": []interface{}{op[1]}}
				}
				return map[string]interface{}{"id": newID("m"), "to": op[1]}
			}
			h := &history{}
			ztable := map[string]interface{}{}
			var seg [][]string
			for _, op := range c.Hist {
				if op[0] != "report" {
					seg = append(seg, op)
					continue
				}
				if len(seg) == 1 {
					h.Msgs = append(h.Msgs, toMsg(seg[0]))
				} else if len(seg) > 1 {
					name := newID("seg")
					batch := []interface{}{}
					for _, o := range seg {
						batch = append(batch, toMsg(o))
					}
					ztable[name] = batch
					h.Msgs = append(h.Msgs, map[string]interface{}{"id": name, "to": "z"})
				}
				seg = nil
			}
			h.Inits = []machInit{{"z", "A", ztable}}
			out.write(runHistory(id, "hist", h, true))
		}
		check(sc.Err())
	case "replay":
		js, err := os.ReadFile(os.Args[2])
		check(err)
		var r struct {
			Case struct {
				Kind string
				Raw  string
			}
		}
		check(json.Unmarshal(js, &r))
		var h history
		check(json.Unmarshal([]byte(r.Case.Raw), &h))
		out := newOut(os.Args[3])
		defer out.close()
		out.write(runHistory(1, r.Case.Kind, &h, r.Case.Kind == "hist"))
	}
}

type outW struct {
	f *os.File
	w *bufio.Writer
	e *json.Encoder
}

func newOut(path string) *outW {
	f, err := os.Create(path)
	check(err)
	w := bufio.NewWriterSize(f, 1<<20)
	e := json.NewEncoder(w)
	e.SetEscapeHTML(false)
	return &outW{f, w, e}
}
func (o *outW) write(c O) { check(o.e.Encode(c)) }
func (o *outW) close()    { o.w.Flush(); o.f.Close() }
func check(err error) {
	if err != nil {
		fmt.Fprintln(os.Stderr, "crewdrv:", err)
		os.Exit(2)
	}
}
