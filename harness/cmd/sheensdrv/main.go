// sheensdrv builds a real sio.Crew from a configuration (machines with specifications written in
// the action language, initial states, a vocabulary of inputs), writes the configuration for the
// composed TLA+ model (spec/Sheens.tla, MC_Sheens.tla) and replays input sequences on the real crew,
// recording per input the machine states and the reported emissions (spec/Trace_Sheens.tla judges).
//
//	sheensdrv config <config.ndjson>
//	sheensdrv run <n> <seed> <out.ndjson>
//	sheensdrv msimple-config <msimple_config.ndjson>        (spec/MC_Msimple.tla)
//	sheensdrv msimple-run <msimple binary> <n> <seed> <out.ndjson>   (spec/Trace_Msimple.tla judges)
package main

import (
	"bufio"
	"bytes"
	"context"
	"encoding/json"
	"fmt"
	"io"
	"log"
	"math/rand"
	"os"
	"os/exec"
	"path/filepath"
	"sort"
	"strconv"
	"strings"
	"time"

	"verifharness/enc"
	"verifharness/mach"

	"github.com/Comcast/sheens/core"
	"github.com/Comcast/sheens/crew"
	"github.com/Comcast/sheens/match"
	"github.com/Comcast/sheens/sio"
	jyaml "github.com/jsccast/yaml"
)

type O = enc.O
type T = enc.T

func pat(kv ...interface{}) map[string]interface{} {
	m := map[string]interface{}{}
	for i := 0; i < len(kv); i += 2 {
		m[kv[i].(string)] = kv[i+1]
	}
	return m
}

func turnstile() *mach.ASpec {
	brs := []mach.ABranch{{HasPat: true, Pat: pat("input", "coin"), Target: "unlocked"}, {HasPat: true, Pat: pat("input", "push"), Target: "locked"}}
	return &mach.ASpec{Nodes: map[string]*mach.ANode{"locked": {BType: "message", Branches: brs}, "unlocked": {BType: "message", Branches: brs}}}
}

// relay: re-emits whatever it is given under "relay"
func relay() *mach.ASpec {
	return &mach.ASpec{Nodes: map[string]*mach.ANode{
		"start": {BType: "message", Branches: []mach.ABranch{{HasPat: true, Pat: pat("relay", "?x"), Target: "fwd"}}},
		"fwd":   {Act: []mach.Op{{Name: "emitb", K: "?x"}, {Name: "del", K: "?x"}}, BType: "bindings", Branches: []mach.ABranch{{Target: "start"}}},
	}}
}

// latch: remembers the last value it was set to; announces every change to the relay
func latch() *mach.ASpec {
	return &mach.ASpec{Nodes: map[string]*mach.ANode{
		"start": {BType: "message", Branches: []mach.ABranch{{HasPat: true, Pat: pat("set", "?v"), Target: "store"}}},
		"store": {Act: []mach.Op{{Name: "setfrom", K: "val", K2: "?v"}, {Name: "del", K: "?v"}, {Name: "emit", V: pat("note", "latched")}}, BType: "bindings", Branches: []mach.ABranch{{Target: "start"}}},
	}}
}

type machine struct {
	spec  *mach.ASpec
	node  string
	order int
}

var crewCfg = map[string]machine{"t1": {turnstile(), "locked", 0}, "t2": {turnstile(), "locked", 1}, "r": {relay(), "start", 2}, "l": {latch(), "start", 3}}

func inputs() []interface{} {
	in := []interface{}{}
	for _, t := range []string{"t1", "t2"} {
		for _, x := range []string{"coin", "push"} {
			in = append(in, pat("to", t, "input", x))
		}
	}
	in = append(in, pat("input", "coin"), pat("to", []interface{}{"t1", "t2"}, "input", "push"))
	in = append(in, pat("to", "r", "relay", pat("to", "t1", "input", "coin")), pat("to", "r", "relay", pat("to", "l", "set", float64(3))),
		pat("to", "r", "relay", pat("to", "r", "relay", pat("to", "t2", "input", "coin"))))
	in = append(in, pat("to", "l", "set", float64(1)), pat("to", "l", "set", "x"), pat("to", "nobody", "input", "coin"), pat("to", "*", "input", "push"))
	return in
}

func config() O {
	ms := O{}
	for mid, m := range crewCfg {
		ms[mid] = O{"spec": mach.EncSpec(m.spec), "st": T{"st", m.node, O{}}}
	}
	return O{"machines": ms, "inputs": mach.EncMsgs(inputs())}
}

type coup struct {
	in  chan interface{}
	out chan *sio.Result
}

func (c *coup) Start(context.Context) error { return nil }
func (c *coup) IO(context.Context) (chan interface{}, chan *sio.Result, error) {
	return c.in, c.out, nil
}
func (c *coup) Read(context.Context) (map[string]*crew.Machine, error) { return nil, nil }
func (c *coup) Stop(context.Context) error                             { return nil }

func run(id int, rng *rand.Rand) O {
	ctx, cancel := context.WithCancel(context.Background())
	defer cancel()
	c, err := sio.NewCrew(ctx, &sio.CrewConf{Id: "sheens", Ctl: &core.Control{Limit: 100}}, &coup{make(chan interface{}, 64), make(chan *sio.Result, 64)})
	check(err)
	mids := []string{}
	for mid := range crewCfg {
		mids = append(mids, mid)
	}
	sort.Strings(mids)
	for _, mid := range mids {
		m := crewCfg[mid]
		check(c.SetMachine(ctx, mid, &crew.SpecSource{Inline: mach.Build(m.spec)}, &core.State{NodeName: m.node, Bs: match.Bindings{}}))
	}
	in := inputs()
	steps := T{}
	outcome := "returned"
	for i, n := 0, 1+rng.Intn(6); i < n; i++ {
		msg := in[rng.Intn(len(in))]
		var r *sio.Result
		func() {
			defer func() {
				if x := recover(); x != nil {
					outcome = "panicked"
				}
			}()
			r, err = c.ProcessMsg(ctx, enc.DeepCopy(msg))
		}()
		if r == nil || err != nil {
			outcome = "failed"
			break
		}
		states := O{}
		for _, mid := range mids {
			states[mid] = mach.EncState(c.Machines[mid].State)
		}
		batches := T{}
		for _, b := range r.Emitted {
			batches = append(batches, mach.EncMsgs(canonAll(b)))
		}
		steps = append(steps, O{"msg": enc.V(msg), "states": states, "emitted": batches})
	}
	cfg := config()
	return O{"id": id, "kind": "sheens", "machines": cfg["machines"], "steps": steps, "outcome": outcome, "raw": enc.Canon(O{"n": len(steps)})}
}

func canonAll(xs []interface{}) []interface{} {
	out := []interface{}{}
	for _, x := range xs {
		js, _ := json.Marshal(x)
		var y interface{}
		json.Unmarshal(js, &y)
		out = append(out, y)
	}
	return out
}

// ---------------------------------------------------------------- emissions as a crew reports them (C08)

// emitSpec: a machine whose walk for one message passes several actions that emit, some of which fail afterwards, with an
// error node that may have a handler of its own (which may emit and may fail, too)
func emitSpec(rng *rand.Rand) *mach.ASpec {
	seq := 0
	em := func() mach.Op { seq++; return mach.Op{Name: "emit", V: pat("e", float64(seq))} }
	fail := func() []mach.Op {
		switch rng.Intn(4) {
		case 0:
			return []mach.Op{{Name: "throw"}}
		case 1:
			return []mach.Op{{Name: "retscalar"}}
		default:
			return nil
		}
	}
	act := func() []mach.Op {
		ops := []mach.Op{}
		for i, n := 0, rng.Intn(3); i < n; i++ {
			ops = append(ops, em())
		}
		if rng.Intn(3) == 0 {
			ops = append(ops, mach.Op{Name: "set", K: "seen", V: float64(seq)})
		}
		return append(ops, fail()...)
	}
	a := &mach.ASpec{Nodes: map[string]*mach.ANode{
		"start": {BType: "message", Branches: []mach.ABranch{{HasPat: true, Pat: pat("go", "?x"), Target: "work"}}},
		"work":  {Act: append([]mach.Op{em()}, mach.Op{Name: "del", K: "?x"}), BType: "bindings", Branches: []mach.ABranch{{Target: "risky"}}},
		"risky": {Act: act(), BType: "bindings", Branches: []mach.ABranch{{Target: []string{"start", "more"}[rng.Intn(2)]}}},
		"more":  {Act: act(), BType: "bindings", Branches: []mach.ABranch{{Target: "start"}}},
	}}
	if rng.Intn(3) > 0 {
		// an error handler
		h := &mach.ANode{Act: act(), BType: "bindings"}
		if rng.Intn(2) == 0 {
			h.Branches = []mach.ABranch{{Target: "start"}}
			if rng.Intn(3) == 0 {
				// the handler's action completes (and may have emitted); the guard of its branch fails afterwards
				h.Branches[0].Guard = []mach.Op{{Name: pickFail(rng)}}
				// (the handler stays at the error node then, and would answer its own emissions for ever: they are
				// addressed to somebody who is not a machine of the crew)
				for k := range h.Act {
					if m, is := h.Act[k].V.(map[string]interface{}); is && h.Act[k].Name == "emit" {
						m["to"] = "ops"
					}
				}
			}
		} else {
			// a handler that stays where it is runs again for every message the machine is presented, its own emissions
			// included: it must not emit (or the crew feeds it for ever)
			h.Act = []mach.Op{{Name: "set", K: "handled", V: true}, {Name: pickFail(rng)}}
		}
		a.Nodes["error"] = h
	}
	a.AEB = rng.Intn(4) == 0
	return a
}

func pickFail(rng *rand.Rand) string { return []string{"throw", "retscalar"}[rng.Intn(2)] }

func emitCrewRun(id int, rng *rand.Rand) O {
	ctx, cancel := context.WithCancel(context.Background())
	defer cancel()
	c, err := sio.NewCrew(ctx, &sio.CrewConf{Id: "emit", Ctl: &core.Control{Limit: 100}}, &coup{make(chan interface{}, 64), make(chan *sio.Result, 64)})
	check(err)
	specs := map[string]*mach.ASpec{"m1": emitSpec(rng)}
	if rng.Intn(2) == 0 {
		specs["m2"] = emitSpec(rng)
	}
	mids := []string{}
	ms := O{}
	for mid, a := range specs {
		mids = append(mids, mid)
		ms[mid] = O{"spec": mach.EncSpec(a), "st": T{"st", "start", O{}}}
	}
	sort.Strings(mids)
	for _, mid := range mids {
		check(c.SetMachine(ctx, mid, &crew.SpecSource{Inline: mach.Build(specs[mid])}, &core.State{NodeName: "start", Bs: match.Bindings{}}))
	}
	steps := T{}
	outcome := "returned"
	for i, n := 0, 1+rng.Intn(3); i < n; i++ {
		msg := pat("go", float64(i))
		if rng.Intn(4) == 0 {
			msg = pat("to", mids[rng.Intn(len(mids))], "go", float64(i))
		}
		var r *sio.Result
		func() {
			defer func() {
				if x := recover(); x != nil {
					outcome = "panicked"
				}
			}()
			r, err = c.ProcessMsg(ctx, enc.DeepCopy(msg))
		}()
		if r == nil || err != nil {
			outcome = "failed"
			break
		}
		states := O{}
		for _, mid := range mids {
			states[mid] = mach.EncState(c.Machines[mid].State)
		}
		batches := T{}
		for _, b := range r.Emitted {
			batches = append(batches, mach.EncMsgs(canonAll(b)))
		}
		steps = append(steps, O{"msg": enc.V(msg), "states": states, "emitted": batches})
	}
	return O{"id": id, "kind": "emitcrew", "machines": ms, "steps": steps, "outcome": outcome, "raw": enc.Canon(O{"specs": specs, "n": len(steps)})}
}

// ---------------------------------------------------------------- cmd/msimple (spec/MsimpleOps.tla)

// multi: forwards what it is given under "relay", forwards both halves of a "pair" (a, then b), remembers the last value it
// is "set" to and announces every change
func multi() *mach.ASpec {
	return &mach.ASpec{Nodes: map[string]*mach.ANode{
		"start": {BType: "message", Branches: []mach.ABranch{
			{HasPat: true, Pat: pat("relay", "?x"), Target: "fwd"},
			{HasPat: true, Pat: pat("pair", pat("a", "?a", "b", "?b")), Target: "both"},
			{HasPat: true, Pat: pat("set", "?v"), Target: "store"}}},
		"fwd":   {Act: []mach.Op{{Name: "emitb", K: "?x"}, {Name: "del", K: "?x"}}, BType: "bindings", Branches: []mach.ABranch{{Target: "start"}}},
		"both":  {Act: []mach.Op{{Name: "emitb", K: "?a"}, {Name: "emitb", K: "?b"}, {Name: "del", K: "?a"}, {Name: "del", K: "?b"}}, BType: "bindings", Branches: []mach.ABranch{{Target: "start"}}},
		"store": {Act: []mach.Op{{Name: "setfrom", K: "val", K2: "?v"}, {Name: "del", K: "?v"}, {Name: "emit", V: pat("note", "latched")}}, BType: "bindings", Branches: []mach.ABranch{{Target: "start"}}},
	}}
}

func genNested(rng *rand.Rand, depth int) interface{} {
	if depth == 0 || rng.Intn(4) == 0 {
		switch rng.Intn(4) {
		case 0:
			return pat("set", float64(rng.Intn(3)))
		case 1:
			return pat("set", "x")
		case 2:
			return pat("other", true)
		default:
			return pat("relay", pat("leaf", float64(rng.Intn(2))))
		}
	}
	if rng.Intn(2) == 0 {
		return pat("relay", genNested(rng, depth-1))
	}
	return pat("pair", pat("a", genNested(rng, depth-1), "b", genNested(rng, depth-1)))
}

func msimpleInputs() []interface{} {
	set1, set2 := pat("set", float64(1)), pat("set", "x")
	return []interface{}{set1, set2, pat("other", true), pat("relay", set1), pat("relay", pat("relay", set2)),
		pat("pair", pat("a", set1, "b", set2)), pat("pair", pat("a", pat("relay", set2), "b", set1)),
		pat("pair", pat("a", pat("pair", pat("a", set1, "b", pat("leaf", float64(0)))), "b", pat("relay", set2)))}
}

func msimpleConfig() O {
	return O{"machine": O{"spec": mach.EncSpec(multi()), "st": T{"st", "start", O{}}}, "inputs": mach.EncMsgs(msimpleInputs())}
}

// msimpleRun: one run of the cmd/msimple binary (built from the tree under test) on the multi spec
func msimpleRun(id int, rng *rand.Rand, bin, specFile string) O {
	recycle := rng.Intn(5) > 0
	var ins []interface{}
	for i, n := 0, 1+rng.Intn(4); i < n; i++ {
		if rng.Intn(3) == 0 {
			fixed := msimpleInputs()
			ins = append(ins, fixed[rng.Intn(len(fixed))])
		} else {
			ins = append(ins, genNested(rng, 3))
		}
	}
	var input bytes.Buffer
	for _, m := range ins {
		js, _ := json.Marshal(m)
		input.Write(js)
		input.WriteByte('\n')
	}
	ctx, cancel := context.WithTimeout(context.Background(), 60*time.Second)
	defer cancel()
	args := []string{"-s", specFile, "-n", "start", "-b", "{}", "-d", "-e"}
	if !recycle {
		args = append(args, "-r=false")
	}
	cmd := exec.CommandContext(ctx, bin, args...)
	cmd.Stdin = &input
	var stdout, stderr bytes.Buffer
	cmd.Stdout, cmd.Stderr = &stdout, &stderr
	cfg := msimpleConfig()
	res := O{"id": id, "kind": "msimple", "machine": cfg["machine"], "recycle": recycle, "outcome": "returned", "steps": T{}, "raw": enc.Canon(O{"inputs": ins, "recycle": recycle})}
	if err := cmd.Run(); err != nil {
		res["outcome"] = "failed: " + err.Error()
		return res
	}
	// "in: <msg>" opens the record of an input line (-e); "# next <state>" is the state after a processed message (-d: the
	// last one of the record is the state after the input and all it caused); other lines that are not diagnostics are the
	// emitted messages, in the order the host printed them
	steps := T{}
	var cur O
	for _, line := range strings.Split(stdout.String(), "\n") {
		switch {
		case strings.HasPrefix(line, "in: "):
			if cur != nil {
				steps = append(steps, cur)
			}
			var x interface{}
			check(json.Unmarshal([]byte(strings.TrimPrefix(line, "in: ")), &x))
			cur = O{"msg": enc.V(x), "out": T{}, "state": T{"st", "start", O{}}}
			if len(steps) > 0 {
				cur["state"] = steps[len(steps)-1].(O)["state"]
			}
		case strings.HasPrefix(line, "# next "):
			var st core.State
			check(json.Unmarshal([]byte(strings.TrimPrefix(line, "# next ")), &st))
			cur["state"] = mach.EncState(&st)
		case strings.HasPrefix(line, "#   error"):
			res["outcome"] = "walk-error"
		case line == "" || strings.HasPrefix(line, "#") || strings.HasPrefix(line, "warning:"):
		default:
			var x interface{}
			check(json.Unmarshal([]byte(line), &x))
			cur["out"] = append(cur["out"].(T), enc.V(x))
		}
	}
	if cur != nil {
		steps = append(steps, cur)
	}
	res["steps"] = steps
	return res
}

func main() {
	log.SetOutput(io.Discard)
	switch os.Args[1] {
	case "emitcrew":
		n, _ := strconv.Atoi(os.Args[2])
		seed, _ := strconv.Atoi(os.Args[3])
		rng := rand.New(rand.NewSource(int64(seed)))
		f, err := os.Create(os.Args[4])
		check(err)
		w := bufio.NewWriterSize(f, 1<<20)
		e := json.NewEncoder(w)
		e.SetEscapeHTML(false)
		for id := 1; id <= n; id++ {
			check(e.Encode(emitCrewRun(id, rng)))
		}
		w.Flush()
		f.Close()
	case "msimple-config":
		f, err := os.Create(os.Args[2])
		check(err)
		e := json.NewEncoder(f)
		e.SetEscapeHTML(false)
		check(e.Encode(msimpleConfig()))
		f.Close()
	case "msimple-run":
		bin := os.Args[2]
		n, _ := strconv.Atoi(os.Args[3])
		seed, _ := strconv.Atoi(os.Args[4])
		rng := rand.New(rand.NewSource(int64(seed)))
		dir, err := os.MkdirTemp("", "verif-msimple")
		check(err)
		defer os.RemoveAll(dir)
		ys, err := jyaml.Marshal(mach.Build(multi()))
		check(err)
		specFile := filepath.Join(dir, "multi.yaml")
		check(os.WriteFile(specFile, ys, 0644))
		f, err := os.Create(os.Args[5])
		check(err)
		w := bufio.NewWriterSize(f, 1<<20)
		e := json.NewEncoder(w)
		e.SetEscapeHTML(false)
		for id := 1; id <= n; id++ {
			check(e.Encode(msimpleRun(id, rng, bin, specFile)))
		}
		w.Flush()
		f.Close()
	case "config":
		f, err := os.Create(os.Args[2])
		check(err)
		e := json.NewEncoder(f)
		e.SetEscapeHTML(false)
		check(e.Encode(config()))
		f.Close()
	case "run":
		n, _ := strconv.Atoi(os.Args[2])
		seed, _ := strconv.Atoi(os.Args[3])
		rng := rand.New(rand.NewSource(int64(seed)))
		f, err := os.Create(os.Args[4])
		check(err)
		w := bufio.NewWriterSize(f, 1<<20)
		e := json.NewEncoder(w)
		e.SetEscapeHTML(false)
		for id := 1; id <= n; id++ {
			check(e.Encode(run(id, rng)))
		}
		w.Flush()
		f.Close()
	}
}

func check(err error) {
	if err != nil {
		fmt.Fprintln(os.Stderr, "sheensdrv:", err)
		os.Exit(2)
	}
}
