// stepdrv drives the real core.Spec.Step / Spec.Walk and records what they do
// (C04-C08, C18).  No property logic: inputs, outputs, snapshots.  TLC judges
// (spec/Trace_Step.tla).
//
//	stepdrv gen <mode> <n> <seed> <out.ndjson>   mode: step | frame | total | emit | perm | walk
//	stepdrv univ <exported.ndjson> <out.ndjson>  node shapes / walks enumerated by TLC
//	stepdrv replay <replay.json> <out.ndjson>
package main

import (
	"bufio"
	"context"
	"encoding/json"
	"fmt"
	"math/rand"
	"os"
	"path/filepath"
	"reflect"
	"runtime/debug"
	"strconv"
	"strings"
	"time"

	"verifharness/enc"
	"verifharness/mach"

	"github.com/Comcast/sheens/core"
	"github.com/Comcast/sheens/crew"
	"github.com/Comcast/sheens/match"
	"github.com/Comcast/sheens/sio"
)

type T = enc.T
type O = enc.O

var rng *rand.Rand

// ---------------------------------------------------------------- vocabulary

var vals = []interface{}{float64(1), float64(2), "a", true, nil, map[string]interface{}{"k": float64(1)},
	[]interface{}{float64(1), float64(2)}, 1.5, "n1", "n2",
	[]interface{}{map[string]interface{}{"k": float64(1)}}, map[string]interface{}{"k": []interface{}{float64(1)}}}
var bkeys = []string{"k", "j", "t", "?x", "?t", "p!", "q!", "xs", "!"}
var nodeNames = []string{"n0", "n1", "n2", "error", "ghost"}

func pick(xs []interface{}) interface{} { return enc.DeepCopy(xs[rng.Intn(len(xs))]) }
func pickS(xs []string) string          { return xs[rng.Intn(len(xs))] }

var patterns = []interface{}{
	map[string]interface{}{"k": "?x"},
	map[string]interface{}{"k": float64(1)},
	map[string]interface{}{"j": "?"},
	map[string]interface{}{"k": float64(1), "j": "?y"},
	map[string]interface{}{"xs": []interface{}{"?e"}},
	map[string]interface{}{"?p": float64(1)},
	map[string]interface{}{"t": "?t"},
	map[string]interface{}{"k": "?x", "j": "?x"},
	map[string]interface{}{"n": "?<lim"},
	map[string]interface{}{},
	map[string]interface{}{"k": "??o"},
	map[string]interface{}{"k": map[string]interface{}{"k": "?x"}},
	"?any",
	float64(1),
	map[string]interface{}{"xs": []interface{}{float64(1)}},
	map[string]interface{}{"xs": []interface{}{float64(2), float64(1)}},
	map[string]interface{}{"xs": []interface{}{map[string]interface{}{"k": float64(1)}}},
	map[string]interface{}{"k": map[string]interface{}{"k": float64(1)}},
	map[string]interface{}{"k": 1.5},
	map[string]interface{}{"k": nil},
}
var badPatterns = []interface{}{
	map[string]interface{}{"xs": []interface{}{"?a", "?b"}},
	map[string]interface{}{"?p": float64(1), "k": float64(1)},
}
var msgs = []interface{}{
	map[string]interface{}{"k": float64(1)},
	map[string]interface{}{"k": float64(2), "j": "a"},
	map[string]interface{}{"j": true},
	map[string]interface{}{"xs": []interface{}{float64(1), float64(2)}},
	map[string]interface{}{"a": float64(1), "b": float64(1)},
	map[string]interface{}{"t": "n1", "k": float64(1)},
	map[string]interface{}{"k": map[string]interface{}{"k": float64(1)}, "j": map[string]interface{}{"k": float64(1)}},
	map[string]interface{}{"k": "a", "j": "a"},
	// (a value that strictly contains what a variable may be bound to; a number for a bound inequality)
	map[string]interface{}{"k": map[string]interface{}{"k": float64(1), "z": float64(2)}},
	map[string]interface{}{"n": float64(1)},
	"scalar",
	float64(1),
	[]interface{}{float64(1)},
}

// hostile: messages with strings that look like pattern variables (a message is whatever a client sends).  Only the kinds
// of C07 (totality) use them: the rule checks of C01-C04 do not range over such strings.
var hostile = []interface{}{
	map[string]interface{}{"k": "?x", "j": float64(1)},
	map[string]interface{}{"k": "?x", "j": "?x"},
	map[string]interface{}{"t": "?t", "k": "?y"},
	map[string]interface{}{"k": map[string]interface{}{"k": "?x"}, "j": "?"},
	"?any",
}

func pickMsg(kind string) interface{} {
	if strings.HasPrefix(kind, "total") && p(0.12) {
		return pick(hostile)
	}
	return pick(msgs)
}

// scripts for the "collections" mode
var collectionScripts = []string{
	`var m = new Map(); m.set("a", m); return {m: m};`,
	`var s = new Set(); s.add(s); return {s: s};`,
	`var m = new Map(); m.set("a", m); _.out({m: m}); return {};`,
	`var m = new Map(); m.set("a", m); _.bindings.m = m; return {};`,
	`var m = new Map(), s = new Set(); m.set("s", s); s.add(m); return {deep: [{m: m}]};`,
	// controls: collections that do not contain themselves are no problem
	`var m = new Map(); m.set("a", 1); var s = new Set(); s.add(2); _.bindings.n = m.get("a") + s.size; return _.bindings;`,
	`var m = new Map(); m.set("a", new Map()); return {m: 1, n: m.size};`,
}

type bias struct {
	fail, perm, emit, bad, loop, native, nilbs, guard, typed, exotic, hostile, inplace float64
}

func p(x float64) bool { return rng.Float64() < x }

// forceMatchdeep: the next op-list that ends in an exotic behaviour ends in matchdeep
var forceMatchdeep bool

func genOps(b bias, guard bool) []mach.Op {
	n := rng.Intn(4)
	ops := []mach.Op{}
	for i := 0; i < n; i++ {
		switch r := rng.Float64(); {
		case r < 0.25+b.emit:
			ops = append(ops, mach.Op{Name: "emit", V: pick(vals)})
		case r < 0.5+b.emit:
			ops = append(ops, mach.Op{Name: "set", K: pickS(bkeys), V: pick(vals)})
		case r < 0.58+b.emit:
			ops = append(ops, mach.Op{Name: "del", K: pickS(bkeys)})
		case r < 0.62+b.emit:
			ops = append(ops, mach.Op{Name: "setfrom", K: pickS(bkeys), K2: pickS(bkeys)})
		case r < 0.66+b.emit:
			k := pickS(bkeys)
			ops = append(ops, mach.Op{Name: "emitb", K: k})
			if p(0.5) && !guard {
				// ... and then the binding that was emitted is changed where it is: the message is what it was when it was emitted
				ops = append(ops, mach.Op{Name: "mutnested", K: k})
			}
		case r < 0.70+b.emit:
			ops = append(ops, mach.Op{Name: "delall"})
		case r < 0.78+b.emit:
			ops = append(ops, mach.Op{Name: "mutnested", K: pickS(bkeys)})
		case r < 0.83+b.emit:
			ops = append(ops, mach.Op{Name: "mutprops"})
		case r < 0.87+b.emit:
			ops = append(ops, mach.Op{Name: "propcount", K: pickS(bkeys)})
		}
	}
	// terminal behaviour
	switch r := rng.Float64(); {
	case r < b.fail*0.5:
		ops = append(ops, mach.Op{Name: "throw"})
	case r < b.fail*0.65:
		ops = append(ops, mach.Op{Name: "retscalar"})
	case r < b.fail*0.8:
		ops = append(ops, mach.Op{Name: "emitbad"})
	case r < b.fail*0.8+b.exotic:
		if forceMatchdeep {
			forceMatchdeep = false
			ops = append(ops, mach.Op{Name: "matchdeep"}) // (slow: more than a second each, so a fixed share of the cases: see main)
		} else {
			ops = append(ops, mach.Op{Name: pickS([]string{"retgetter", "retcyclic", "throwobj", "retcyclicobj", "retnan", "retgetterbad", "retdeepshared"})})
		}
	case r < b.fail*0.8+b.exotic+b.loop:
		ops = append(ops, mach.Op{Name: "loop"})
	case r < b.fail*0.8+b.exotic+b.loop+0.12:
		ops = append(ops, mach.Op{Name: pickS([]string{"retnull", "retnull", "retundef"})})
	case r < b.fail*0.8+b.exotic+b.loop+0.2:
		f := map[string]interface{}{}
		for i, n := 0, rng.Intn(3); i < n; i++ {
			f[pickS(bkeys)] = pick(vals)
		}
		ops = append(ops, mach.Op{Name: "fresh", V: f})
	}
	return ops
}

func genNode(b bias, allowMsgAct bool) *mach.ANode {
	n := &mach.ANode{Native: p(b.native)}
	n.Partial = n.Native && p(0.3)
	n.InPlace = n.Native && p(b.inplace)
	if n.InPlace {
		// (C18 speaks of code that deletes, overwrites or replaces bindings; a native action that reaches INTO a value it was
		// handed and changes it there is not among them - the engine hands native actions the values themselves)
		defer func() {
			strip := func(ops []mach.Op) []mach.Op {
				out := ops[:0:0]
				for _, o := range ops {
					if o.Name != "mutnested" {
						out = append(out, o)
					}
				}
				if ops == nil {
					return nil
				}
				return out
			}
			n.Act = strip(n.Act)
			for i := range n.Branches {
				n.Branches[i].Guard = strip(n.Branches[i].Guard)
			}
		}()
	}
	if p(0.5) {
		n.Act = genOps(b, false)
	}
	if p(0.1) {
		n.NoBr = true
		return n
	}
	n.BType = []string{"message", "bindings", ""}[rng.Intn(3)]
	if n.Act != nil && n.BType == "message" && !(allowMsgAct && p(0.15)) {
		n.BType = "bindings"
	}
	for j, nb := 0, rng.Intn(4); j < nb; j++ {
		br := mach.ABranch{Target: pickS(nodeNames)}
		if p(0.12) {
			br.Target = []string{"@t", "@?t", "@k"}[rng.Intn(3)]
		}
		if p(0.85) {
			br.HasPat = true
			br.Pat = pick(patterns)
			if _, bare := br.Pat.(string); bare && n.BType != "message" {
				br.Pat = map[string]interface{}{"k": "?x"} // a bare variable would bind the bindings themselves ('?' keys inside a value)
			}
			if p(b.bad) {
				br.Pat = pick(badPatterns)
			}
		}
		if p(b.guard) {
			br.Guard = genOps(b, true)
		}
		if p(0.12) {
			// a pattern with several candidates and a guard that rejects one of them and accepts another
			if p(0.5) {
				br.HasPat, br.Pat = true, map[string]interface{}{"xs": []interface{}{"?e"}}
				br.Guard = append([]mach.Op{{Name: "nullif", K: "?e", V: float64(1 + rng.Intn(2))}}, genOps(b, true)...)
			} else {
				br.HasPat, br.Pat = true, map[string]interface{}{"?p": float64(1)}
				br.Guard = append([]mach.Op{{Name: "nullif", K: "?p", V: pickS([]string{"a", "b"})}}, genOps(b, true)...)
			}
		}
		if p(0.08) {
			// a '@var' target whose variable the guard rewrites
			br.Target = "@t"
			br.Guard = []mach.Op{{Name: "set", K: "t", V: pickS([]string{"n0", "n1", "n2"})}}
			if p(0.5) {
				br.HasPat, br.Pat = true, map[string]interface{}{"t": "?t"}
				br.Target = "@?t"
				br.Guard = []mach.Op{{Name: "set", K: "?t", V: pickS([]string{"n0", "n1", "n2"})}}
			}
		}
		n.Branches = append(n.Branches, br)
	}
	return n
}

func genBs(b bias) match.Bindings {
	if p(b.nilbs) {
		return nil
	}
	bs := match.Bindings{}
	for i, n := 0, rng.Intn(4); i < n; i++ {
		k := pickS(bkeys)
		if k == "p!" || k == "q!" {
			if !p(0.3 + b.perm) {
				continue
			}
		}
		bs[k] = pick(vals)
	}
	if p(0.06) {
		// a binding called error or actionError that is not an error text (the judge compares error texts by presence
		// only): a failure replaces it
		bs[pickS([]string{"error", "actionError"})] = pick([]interface{}{float64(7), map[string]interface{}{"k": float64(1)}, []interface{}{float64(1)}, true})
	}
	if p(b.perm) {
		bs["p!"] = pick(vals)
	}
	if p(b.perm * 0.25) {
		bs["!"] = pick(vals) // (the shortest name that ends in '!')
	}
	if p(b.hostile) {
		// a variable bound to a string that looks like a variable (taken from a message, say), possibly its own name
		bs["?x"] = pickS([]string{"?x", "?t", "?y"})
		if p(0.5) {
			bs["?t"] = "?x"
		}
	}
	if p(b.typed) {
		// values as a Go host might build them natively: typed containers, and nothing generic beside them
		bs = match.Bindings{}
		if p(0.6) {
			bs[pickS([]string{"k", "xs", "t"})] = []string{"new", "urgent"}
		}
		if p(0.6) {
			bs["j"] = map[string]string{"a": "b"}
		}
		if p(0.3) {
			bs["?x"] = "a"
		}
	}
	return bs
}

func genSpec(b bias, nNodes int, allowMsgAct bool) *mach.ASpec {
	a := &mach.ASpec{Nodes: map[string]*mach.ANode{}}
	for i := 0; i < nNodes; i++ {
		a.Nodes[nodeNames[i]] = genNode(b, allowMsgAct)
	}
	if p(0.15) {
		a.Nodes["error"] = genNode(b, false)
	}
	a.AEB = p(0.33)
	if p(0.33) {
		a.AEN = pickS([]string{"n1", "n0", "error", "ghost"})
	}
	if p(0.12) {
		// the spec names its error node: another of its nodes, or one that Compile adds
		a.EN = pickS([]string{"n1", "failed", "n2"})
	}
	return a
}

// ---------------------------------------------------------------- running with trap and watchdog

type callOut struct {
	outcome string
	panicv  string
}

func guarded(f func()) callOut {
	done := make(chan callOut, 1)
	go func() {
		defer func() {
			if r := recover(); r != nil {
				done <- callOut{"panicked", fmt.Sprint(r)}
			}
		}()
		f()
		done <- callOut{"returned", ""}
	}()
	select {
	case o := <-done:
		return o
	case <-time.After(8 * time.Second):
		return callOut{"hung", ""}
	}
}

func ctxFor(a *mach.ASpec) (context.Context, context.CancelFunc) {
	if mach.HasLoop(a) {
		return context.WithTimeout(context.Background(), 40*time.Millisecond)
	}
	return context.WithCancel(context.Background())
}

// sameMap: the returned bindings ARE the given bindings map, or contain it at any depth
// (e.g. as the error state's lastBindings)
func sameMap(a, b match.Bindings) bool {
	if a == nil || b == nil {
		return false
	}
	return containsMap(map[string]interface{}(a), reflect.ValueOf(b).Pointer(), 0)
}

func containsMap(x interface{}, target uintptr, depth int) bool {
	if depth > 40 {
		return false
	}
	switch vv := x.(type) {
	case match.Bindings:
		return containsMap(map[string]interface{}(vv), target, depth)
	case map[string]interface{}:
		if vv != nil && reflect.ValueOf(vv).Pointer() == target {
			return true
		}
		for _, v := range vv {
			if containsMap(v, target, depth+1) {
				return true
			}
		}
	case []interface{}:
		for _, v := range vv {
			if containsMap(v, target, depth+1) {
				return true
			}
		}
	}
	return false
}

// qvals reports whether a bound value contains a string or key beginning with '?'
// (such a value, re-used as a sub-pattern, would act as a variable: outside the
// quantifier of C01-C04, so the judge skips the rule check for that step).
func qvals(bs match.Bindings) bool {
	for _, v := range bs {
		if hasQ(v) {
			return true
		}
	}
	return false
}

// hasTyped: a binding holds a typed Go container (as a Go host might build natively).  The matcher
// is defined on generic JSON values, so such states are judged for the frame conditions only.
func hasTyped(bs match.Bindings) bool {
	for _, v := range bs {
		switch v.(type) {
		case []string, map[string]string:
			return true
		}
	}
	return false
}

func hasQ(x interface{}) bool {
	switch vv := x.(type) {
	case string:
		return enc.IsVar(vv)
	case []interface{}:
		for _, v := range vv {
			if hasQ(v) {
				return true
			}
		}
	case map[string]interface{}:
		for k, v := range vv {
			if enc.IsVar(k) || hasQ(v) {
				return true
			}
		}
	}
	return false
}

func encStride(s *core.Stride) O {
	o := O{"from": mach.EncState(s.From), "to": mach.EncState(s.To), "consumed": T{"none"}, "emitted": T{}, "q": s.From != nil && qvals(s.From.Bs)}
	if s.Consumed != nil {
		o["consumed"] = enc.V(s.Consumed)
	}
	if s.Events != nil {
		o["emitted"] = mach.EncMsgs(s.Emitted)
	}
	return o
}

// ---------------------------------------------------------------- one step case

type stepIn struct {
	a       *mach.ASpec
	node    string
	bs      match.Bindings
	pending interface{} // nil: none
	nilCtl  bool
	props   core.StepProps
	warm    bool
}

func doStep(spec *core.Spec, a *mach.ASpec, st *core.State, pending interface{}, ctl *core.Control, props core.StepProps) (O, *core.Stride) {
	out := O{"outcome": "returned", "stride": false, "to": T{"none"}, "consumed": T{"none"}, "emitted": T{}, "cls": "", "errtext": ""}
	var stride *core.Stride
	var err error
	ctx, cancel := ctxFor(a)
	defer cancel()
	co := guarded(func() { stride, err = spec.Step(ctx, st, pending, ctl, props) })
	out["outcome"] = co.outcome
	out["errtext"] = co.panicv
	if co.outcome != "returned" {
		return out, nil
	}
	out["cls"] = mach.Classify(err)
	if err != nil {
		out["errtext"] = err.Error()
	}
	if stride != nil {
		out["stride"] = true
		e := encStride(stride)
		out["to"], out["consumed"], out["emitted"], out["from"] = e["to"], e["consumed"], e["emitted"], e["from"]
	}
	return out, stride
}

func stepCase(id int, kind string, in stepIn) O {
	spec, err := mach.Compile(in.a)
	if err != nil {
		return O{"id": id, "kind": "compile-error", "errtext": err.Error()}
	}
	st := &core.State{NodeName: in.node, Bs: in.bs}
	var ctl *core.Control
	if !in.nilCtl {
		ctl = &core.Control{Limit: 7, Breakpoints: map[string]core.Breakpoint{}}
	}
	pendEnc := interface{}(T{"nomsg"})
	if in.pending != nil {
		pendEnc = enc.V(in.pending)
	}
	// deep copies for the second, identical call
	st2 := &core.State{NodeName: in.node, Bs: nil}
	if in.bs != nil {
		st2.Bs = enc.DeepCopy(in.bs).(match.Bindings)
	}
	pending2 := enc.DeepCopy(in.pending)
	props2 := core.StepProps(nil)
	if in.props != nil {
		props2 = core.StepProps(enc.DeepCopy(map[string]interface{}(in.props)).(map[string]interface{}))
	}

	rec := O{"id": id, "kind": kind, "render": map[bool]string{true: "native", false: "js"}[in.a.Nodes["n0"] != nil && in.a.Nodes["n0"].Native],
		"spec": mach.EncSpec(in.a), "st": mach.EncState(st), "nilbs": in.bs == nil, "q": qvals(in.bs) || hasTyped(in.bs),
		"perm": mach.PermNames(in.a, in.bs), "pending": pendEnc, "nilctl": in.nilCtl,
		"raw": enc.Canon(O{"spec": in.a, "node": in.node, "bs": in.bs, "pending": in.pending, "nilctl": in.nilCtl, "props": in.props})}
	if in.warm {
		// the same compiled spec first serves another machine, one without permanent bindings
		wbs := match.Bindings{}
		for k, v := range in.bs {
			if !strings.HasSuffix(k, "!") {
				wbs[k] = enc.DeepCopy(v)
			}
		}
		doStep(spec, in.a, &core.State{NodeName: in.node, Bs: wbs}, enc.DeepCopy(in.pending), ctl, nil)
	}
	specBefore := mach.SpecSnapshot(spec)
	propsBefore := enc.Canon(in.props)
	ctlBefore := ""
	if ctl != nil {
		ctlBefore = fmt.Sprint(ctl.Limit, len(ctl.Breakpoints))
	}
	out, stride := doStep(spec, in.a, st, in.pending, ctl, in.props)
	rec["out"] = out
	shares := false
	if stride != nil {
		if stride.To != nil && sameMap(stride.To.Bs, in.bs) {
			shares = true
		}
		if stride.From != nil && sameMap(stride.From.Bs, in.bs) {
			shares = true
		}
	}
	ctlAfter := ""
	if ctl != nil {
		ctlAfter = fmt.Sprint(ctl.Limit, len(ctl.Breakpoints))
	}
	pendAfter := interface{}(T{"nomsg"})
	if in.pending != nil {
		pendAfter = enc.V(in.pending)
	}
	rec["frame"] = O{"st": mach.EncState(st), "pending": pendAfter, "specSame": specBefore == mach.SpecSnapshot(spec),
		"propsSame": propsBefore == enc.Canon(in.props), "ctlSame": ctlBefore == ctlAfter, "sharesBs": shares}
	// the same call again on fresh deep copies (the spec object is the same: it is shared data)
	out2, _ := doStep(spec, in.a, st2, pending2, ctl, props2)
	rec["repeat"] = out2
	return rec
}

// step properties with containers nested in maps and in arrays
func genProps() core.StepProps {
	return core.StepProps{"mid": "m1", "n": map[string]interface{}{"k": float64(1), "deep": map[string]interface{}{"z": []interface{}{float64(1)}}},
		"l": []interface{}{map[string]interface{}{"c": float64(1)}, []interface{}{float64(1), map[string]interface{}{"d": "x"}}, "s"},
		// containers of other Go types, which hosts may well put into the properties
		"labels": map[string]string{"env": "prod"}, "peers": []string{"p1", "p2"}, "rows": []map[string]interface{}{{"r": "one"}},
		// ... and of a host's own named types, with elements of any type
		"attrs": hostAttrs{"k": float64(1), "deep": map[string]interface{}{"z": []interface{}{float64(1)}}},
		"queue": hostQueue{map[string]interface{}{"c": float64(1)}, []interface{}{float64(2)}}}
}

type hostAttrs map[string]interface{}
type hostQueue []interface{}

func genStep(id int, kind string, b bias) O {
	a := genSpec(b, 1+rng.Intn(2), true)
	in := stepIn{a: a, node: "n0", bs: genBs(b), nilCtl: p(0.3), warm: p(0.4)}
	if p(0.08) {
		in.node = "ghost"
	}
	if p(0.7) {
		in.pending = pickMsg(kind)
	}
	if p(0.3) {
		in.props = genProps()
	}
	if p(0.04) {
		// a variable that is bound when the branch is tried: its value is the pattern for what the message has at that place
		// (a structured value matches what contains it; an inequality's bound is compared, its counterpart bound)
		type dv struct {
			bs  match.Bindings
			pat interface{}
			msg interface{}
		}
		d := []dv{
			{match.Bindings{"?x": map[string]interface{}{"k": float64(1)}}, map[string]interface{}{"k": "?x"}, map[string]interface{}{"k": map[string]interface{}{"k": float64(1), "z": float64(2)}}},
			{match.Bindings{"?x": []interface{}{float64(1)}}, map[string]interface{}{"xs": "?x"}, map[string]interface{}{"xs": []interface{}{float64(1), float64(2)}}},
			{match.Bindings{"?<lim": float64(2)}, map[string]interface{}{"n": "?<lim"}, map[string]interface{}{"n": float64(1)}},
			{match.Bindings{"?<lim": float64(2)}, map[string]interface{}{"n": "?<lim"}, map[string]interface{}{"n": float64(3)}},
			{match.Bindings{"?x": map[string]interface{}{"k": float64(1)}}, map[string]interface{}{"k": "?x"}, map[string]interface{}{"k": map[string]interface{}{"z": float64(2)}}},
		}[rng.Intn(5)]
		in.bs, in.pending = d.bs, d.msg
		in.a.Nodes["n0"] = &mach.ANode{BType: "message", Branches: []mach.ABranch{{HasPat: true, Pat: d.pat, Target: "n1"}, {Target: "n0"}}}
		if in.a.Nodes["n1"] == nil {
			in.a.Nodes["n1"] = &mach.ANode{NoBr: true}
		}
		in.node = "n0"
	}
	return stepCase(id, kind, in)
}

// ---------------------------------------------------------------- walks

type walkIn struct {
	a      *mach.ASpec
	node   string
	bs     match.Bindings
	msgs   []interface{}
	limit  int
	bps    []string
	nilCtl bool
	props  core.StepProps
	orig   match.Bindings // pristine copy of bs: a modification of the caller's map by the first call must not leak into later calls
}

func mkCtl(in walkIn) *core.Control {
	if in.nilCtl {
		return nil
	}
	c := &core.Control{Limit: in.limit, Breakpoints: map[string]core.Breakpoint{}}
	for _, n := range in.bps {
		n := n
		c.Breakpoints["bp:"+n] = func(_ context.Context, st *core.State) bool { return st.NodeName == n }
	}
	return c
}

func doWalk(spec *core.Spec, a *mach.ASpec, st *core.State, ms []interface{}, ctl *core.Control, props ...core.StepProps) (O, *core.Walked) {
	var wprops core.StepProps
	if len(props) > 0 {
		wprops = props[0]
	}
	out := O{"outcome": "returned", "strides": T{}, "remaining": T{}, "stopped": "", "bpid": "", "cls": "", "errtext": "", "walked": false, "finalq": false, "werr": ""}
	var w *core.Walked
	var err error
	ctx, cancel := ctxFor(a)
	defer cancel()
	co := guarded(func() { w, err = spec.Walk(ctx, st, ms, ctl, wprops) })
	out["outcome"] = co.outcome
	out["errtext"] = co.panicv
	if co.outcome != "returned" {
		return out, nil
	}
	out["cls"] = mach.Classify(err)
	if w != nil {
		out["walked"] = true
		ss := T{}
		for _, s := range w.Strides {
			ss = append(ss, encStride(s))
		}
		out["strides"] = ss
		out["remaining"] = mach.EncMsgs(w.Remaining)
		out["stopped"] = w.StoppedBecause.String()
		out["bpid"] = w.BreakpointId
		em := T{}
		w.DoEmitted(func(x interface{}) error { em = append(em, enc.V(x)); return nil })
		out["doEmitted"] = em
		out["walkedTo"] = mach.EncState(w.To())
		out["werr"] = mach.Classify(w.Error)
		// the final state holds a value that would act as a variable when used as a pattern (outside the rule's quantifier)
		if to := w.To(); to != nil {
			out["finalq"] = qvals(to.Bs)
		} else {
			out["finalq"] = st != nil && qvals(st.Bs)
		}
	}
	return out, w
}

func copyMsgs(ms []interface{}) []interface{} {
	if ms == nil {
		return nil
	}
	return enc.DeepCopy(ms).([]interface{})
}

func copyBs(bs match.Bindings) match.Bindings {
	if bs == nil {
		return nil
	}
	return enc.DeepCopy(bs).(match.Bindings)
}

func walkCase(id int, kind string, in walkIn, splits bool) O {
	spec, err := mach.Compile(in.a)
	if err != nil {
		return O{"id": id, "kind": "compile-error", "errtext": err.Error()}
	}
	st := &core.State{NodeName: in.node, Bs: in.bs}
	msgs0 := copyMsgs(in.msgs)
	ctl := mkCtl(in)
	rec := O{"id": id, "kind": kind, "spec": mach.EncSpec(in.a), "st": mach.EncState(st), "nilbs": in.bs == nil,
		"perm": mach.PermNames(in.a, in.bs), "msgs": mach.EncMsgs(in.msgs), "limit": in.limit, "deflimit": defaultLimit, "bps": in.bps, "nilctl": in.nilCtl,
		"raw": enc.Canon(O{"spec": in.a, "node": in.node, "bs": in.bs, "msgs": in.msgs, "limit": in.limit, "bps": in.bps, "nilctl": in.nilCtl, "props": in.props})}
	if in.bps == nil {
		rec["bps"] = T{}
	}
	specBefore := mach.SpecSnapshot(spec)
	propsBefore := enc.Canon(in.props)
	var props2 core.StepProps
	if in.props != nil {
		props2 = core.StepProps(enc.DeepCopy(map[string]interface{}(in.props)).(map[string]interface{}))
	}
	out, w := doWalk(spec, in.a, st, in.msgs, ctl, in.props)
	rec["out"] = out
	shares := false
	if w != nil {
		for _, s := range w.Strides {
			if (s.To != nil && sameMap(s.To.Bs, in.bs)) || (s.From != nil && sameMap(s.From.Bs, in.bs)) {
				shares = true
			}
		}
	}
	ctlSame := true
	if ctl != nil {
		ctlSame = ctl.Limit == in.limit && len(ctl.Breakpoints) == len(in.bps)
	}
	rec["frame"] = O{"st": mach.EncState(st), "msgs": mach.EncMsgs(in.msgs), "specSame": specBefore == mach.SpecSnapshot(spec),
		"ctlSame": ctlSame, "sharesBs": shares, "propsSame": propsBefore == enc.Canon(in.props)}
	// identical second call on fresh copies
	st2 := &core.State{NodeName: in.node, Bs: copyBs(in.orig)}
	out2, _ := doWalk(spec, in.a, st2, copyMsgs(msgs0), mkCtl(in), props2)
	rec["repeat"] = out2
	// every split of the message sequence into consecutive batches (limit large, no breakpoints)
	sp := T{}
	if splits && len(msgs0) <= 4 {
		big := walkIn{limit: 30}
		n := len(msgs0)
		for mask := 0; mask < 1<<uint(max(n-1, 0)); mask++ {
			var batches [][]interface{}
			cur := []interface{}{}
			for i := 0; i < n; i++ {
				cur = append(cur, msgs0[i])
				if i == n-1 || mask&(1<<uint(i)) != 0 {
					batches = append(batches, cur)
					cur = []interface{}{}
				}
			}
			if n == 0 {
				batches = [][]interface{}{{}}
			}
			state := &core.State{NodeName: in.node, Bs: copyBs(in.orig)}
			em := T{}
			stops := T{}
			sizes := T{}
			outcome := "returned"
			for _, bt := range batches {
				sizes = append(sizes, len(bt))
				o, w := doWalk(spec, in.a, state, copyMsgs(bt), mkCtl(big))
				if o["outcome"] != "returned" || w == nil {
					outcome = o["outcome"].(string)
					break
				}
				stops = append(stops, w.StoppedBecause.String())
				em = append(em, o["doEmitted"].(T)...)
				if to := w.To(); to != nil {
					state = to
				}
			}
			sp = append(sp, O{"split": sizes, "final": mach.EncState(state), "emitted": em, "stops": stops, "outcome": outcome})
		}
	}
	rec["splits"] = sp
	return rec
}

func genWalk(id int, kind string, b bias) O {
	a := genSpec(b, 2+rng.Intn(2), false)
	if p(0.1) {
		// a guard that fails on a message branch whose pattern matches: the failed step has consumed the message, and the
		// walk goes on at the error node (which may listen for messages itself) with the NEXT message
		n0 := &mach.ANode{BType: "message"}
		if p(0.4) {
			n0.Branches = append(n0.Branches, mach.ABranch{HasPat: true, Pat: map[string]interface{}{"nomatch": true}, Target: "n1"})
		}
		n0.Branches = append(n0.Branches, mach.ABranch{HasPat: true, Pat: pick([]interface{}{"?any", map[string]interface{}{}, map[string]interface{}{"k": "?x"}}),
			Guard: []mach.Op{{Name: pickS([]string{"throw", "retscalar", "emitbad"})}}, Target: "n1"})
		a.Nodes["n0"] = n0
		if p(0.6) {
			a.Nodes["error"] = &mach.ANode{BType: "message", Branches: []mach.ABranch{
				{HasPat: true, Pat: pick([]interface{}{"?m", map[string]interface{}{"k": "?again"}, map[string]interface{}{}}), Target: pickS([]string{"n1", "n0", "error"})}}}
		}
		a.EN = ""
	}
	in := walkIn{a: a, node: "n0", bs: genBs(b), nilCtl: p(0.04)}
	for i, n := 0, rng.Intn(5); i < n; i++ {
		in.msgs = append(in.msgs, pickMsg(kind))
	}
	in.limit = []int{0, 1, 2, 3, 5, 8, 30, 30, 30}[rng.Intn(9)]
	if in.nilCtl {
		in.limit = defaultLimit
	}
	if p(0.2) && !in.nilCtl {
		in.bps = []string{pickS([]string{"n1", "n2", "error"})}
	}
	in.orig = copyBs(in.bs)
	if p(0.3) {
		in.props = genProps()
	}
	return walkCase(id, kind, in, true)
}

// ---------------------------------------------------------------- persist (C09)

// persistCase runs one history twice with the messages delivered one at a time: once
// keeping the state in memory, once writing it out as JSON and reading it back at the
// boundaries in saveAt.
func persistCase(id int, a *mach.ASpec, bs match.Bindings, ms []interface{}, saveAt []int) O {
	spec, err := mach.Compile(a)
	if err != nil {
		return O{"id": id, "kind": "compile-error", "errtext": err.Error()}
	}
	runOnce := func(save map[int]bool) (T, string) {
		st := &core.State{NodeName: "n0", Bs: copyBs(bs)}
		steps := T{}
		for i, m := range ms {
			if save[i] && id%3 == 0 {
				// the single-loop host's way: the state file that sio.Stdio writes, read back by sio.Stdio.Read
				js, err := json.MarshalIndent(map[string]*crew.Machine{"m": {Id: "m", State: st}}, "", "  ")
				if err != nil {
					return steps, "marshal: " + err.Error()
				}
				f := filepath.Join(os.TempDir(), "verif-persist-"+strconv.Itoa(os.Getpid())+".json")
				if err := os.WriteFile(f, js, 0644); err != nil {
					return steps, "write: " + err.Error()
				}
				store := sio.NewStdio(false)
				store.StateInputFilename = f
				read, err := store.Read(context.Background())
				os.Remove(f)
				if err != nil || read["m"] == nil || read["m"].State == nil {
					return steps, "read: " + fmt.Sprint(err)
				}
				st = read["m"].State
			} else if save[i] {
				js, err := json.Marshal(st)
				if err != nil {
					return steps, "marshal: " + err.Error()
				}
				st2 := &core.State{}
				if err := json.Unmarshal(js, st2); err != nil {
					return steps, "unmarshal: " + err.Error()
				}
				st = st2
			}
			o, w := doWalk(spec, a, st, []interface{}{enc.DeepCopy(m)}, &core.Control{Limit: 12})
			if o["outcome"] != "returned" || w == nil {
				return steps, "walk: " + fmt.Sprint(o["outcome"], o["errtext"])
			}
			if to := w.To(); to != nil {
				st = to
			}
			steps = append(steps, O{"state": mach.EncState(st), "emitted": o["doEmitted"], "stopped": o["stopped"]})
		}
		return steps, ""
	}
	save := map[int]bool{}
	for _, i := range saveAt {
		save[i] = true
	}
	runA, errA := runOnce(map[int]bool{})
	runB, errB := runOnce(save)
	if saveAt == nil {
		saveAt = []int{}
	}
	return O{"id": id, "kind": "persist", "spec": mach.EncSpec(a), "st": mach.EncState(&core.State{NodeName: "n0", Bs: bs}),
		"msgs": mach.EncMsgs(ms), "saveAt": saveAt, "runA": runA, "runB": runB, "errA": errA, "errB": errB,
		"raw": enc.Canon(O{"spec": a, "bs": bs, "msgs": ms, "saveAt": saveAt})}
}

// subPattern returns a pattern contained in the value (the value itself, or a part of it).
func subPattern(v interface{}) interface{} {
	switch vv := v.(type) {
	case []interface{}:
		if len(vv) > 1 && p(0.6) {
			return []interface{}{enc.DeepCopy(vv[rng.Intn(len(vv))])}
		}
	case map[string]interface{}:
		if len(vv) > 1 && p(0.5) {
			for k, x := range vv {
				return map[string]interface{}{k: enc.DeepCopy(x)}
			}
		}
	}
	return enc.DeepCopy(v)
}

func genPersist(id int) O {
	b := bias{fail: 0.25, perm: 0.05, emit: 0.1, bad: 0, loop: 0, native: 0, nilbs: 0, guard: 0.15}
	a := genSpec(b, 3, false)
	// histories need machines that consume: make n0 (and often n1) wait for messages
	for _, name := range []string{"n0", "n1"} {
		if n := a.Nodes[name]; n != nil && (name == "n0" || p(0.5)) {
			n.Act, n.NoBr, n.BType = nil, false, "message"
			if len(n.Branches) == 0 {
				n.Branches = []mach.ABranch{{HasPat: true, Pat: pick(patterns), Target: pickS([]string{"n1", "n2"})}}
			}
			n.Branches = append(n.Branches, mach.ABranch{Target: pickS([]string{"n1", "n2", "n0"})})
		}
	}
	var ms []interface{}
	for i, n := 0, 1+rng.Intn(4); i < n; i++ {
		ms = append(ms, pick(msgs))
	}
	if p(0.4) {
		// a value produced by an action in one walk and inspected by a pattern in a later one
		key := pickS([]string{"k", "xs", "?x", "j"})
		val := pick([]interface{}{[]interface{}{float64(1), float64(2)}, float64(3), 1.5, nil, map[string]interface{}{"k": []interface{}{float64(1)}},
			[]interface{}{map[string]interface{}{"k": float64(1)}}, map[string]interface{}{"k": float64(1), "j": nil}, []interface{}{float64(1), "a", nil}})
		sub := subPattern(val)
		a = &mach.ASpec{Nodes: map[string]*mach.ANode{
			"n0": {BType: "message", Branches: []mach.ABranch{{Target: "n1"}}},
			"n1": {Act: []mach.Op{{Name: "set", K: key, V: val}, {Name: "emit", V: val}}, BType: "bindings", Branches: []mach.ABranch{{Target: "n2"}}},
			"n2": {BType: "message", Branches: []mach.ABranch{{Target: "n3"}}},
			"n3": {BType: "bindings", Branches: []mach.ABranch{{HasPat: true, Pat: map[string]interface{}{key: sub}, Target: "n4"}, {Target: "n0"}}},
			"n4": {Act: []mach.Op{{Name: "emitb", K: key}}, BType: "bindings", Branches: []mach.ABranch{{Target: "n0"}}},
		}}
		if p(0.5) {
			// the later pattern is a message pattern that re-uses the bound variable
			a.Nodes["n2"].Branches = []mach.ABranch{{HasPat: true, Pat: map[string]interface{}{"v": "?x"}, Target: "n4"}, {Target: "n0"}}
			a.Nodes["n1"].Act[0].K = "?x"
			a.Nodes["n4"].Act[0].K = "?x"
			key = "?x"
			ms = []interface{}{pick(msgs), map[string]interface{}{"v": enc.DeepCopy(val)}, pick(msgs)}
		}
		if p(0.3) {
			a.Nodes["n1"].Act = append(a.Nodes["n1"].Act, mach.Op{Name: "throw"})
			a.AEN = "n2"
		}
		if p(0.15) {
			// what the extended interpreter's _.match returned, kept in the bindings and looked into later
			a.Nodes["n1"].Act = []mach.Op{{Name: "matchstore", K: "found"}}
			a.Nodes["n3"] = &mach.ANode{BType: "bindings", Branches: []mach.ABranch{{HasPat: true, Pat: map[string]interface{}{"found": map[string]interface{}{}}, Target: "n4"}, {Target: "n0"}}}
			a.Nodes["n4"].Act = []mach.Op{{Name: "emit", V: "found"}}
			a.Nodes["n2"].Branches = []mach.ABranch{{Target: "n3"}}
			a.AEN = ""
		}
		if p(0.25) {
			// an inequality variable whose bound an action computed; a later message is compared with it
			ineq := pickS([]string{"?<lim", "?<=lim", "?>lim", "?>=lim", "?!=lim"})
			bound := pick([]interface{}{float64(5), float64(3), 2.5, float64(0)})
			a = &mach.ASpec{Nodes: map[string]*mach.ANode{
				"n0": {BType: "message", Branches: []mach.ABranch{{Target: "n1"}}},
				"n1": {Act: ineqAct(ineq, bound), BType: "bindings", Branches: []mach.ABranch{{Target: "n2"}}},
				"n2": {BType: "message", Branches: []mach.ABranch{{HasPat: true, Pat: map[string]interface{}{"n": ineq}, Target: "n4"}, {Target: "n2"}}},
				"n4": {Act: []mach.Op{{Name: "emitb", K: "?lim"}, {Name: "del", K: "?lim"}}, BType: "bindings", Branches: []mach.ABranch{{Target: "n2"}}},
			}}
			ms = []interface{}{pick(msgs)}
			for i := 0; i < 3; i++ {
				ms = append(ms, map[string]interface{}{"n": pick([]interface{}{float64(3), float64(5), float64(7), 2.5, float64(0)})})
			}
		}
		if p(0.2) {
			// the diagnostic bindings of the error node, inspected by a later pattern
			a = &mach.ASpec{Nodes: map[string]*mach.ANode{
				"n0":    {BType: "message", Branches: []mach.ABranch{{Target: "n1"}}},
				"n1":    {Act: []mach.Op{{Name: "set", K: "seen", V: pick(vals)}, {Name: "throw"}}, BType: "bindings", Branches: []mach.ABranch{{Target: "n0"}}},
				"error": {BType: "message", Branches: []mach.ABranch{{Target: "n3"}}},
				"n3": {BType: "bindings", Branches: []mach.ABranch{
					{HasPat: true, Pat: map[string]interface{}{"lastBindings": map[string]interface{}{"was": "?w"}}, Target: "n4"},
					{HasPat: true, Pat: map[string]interface{}{"lastBindings": map[string]interface{}{}}, Target: "n2"}, {Target: "n0"}}},
				"n4": {Act: []mach.Op{{Name: "emitb", K: "?w"}}, BType: "bindings", Branches: []mach.ABranch{{Target: "n2"}}},
				"n2": {BType: "message", Branches: []mach.ABranch{{Target: "n0"}}},
			}}
			if p(0.5) {
				a.AEB = true
				a.Nodes["n1"].Branches = []mach.ABranch{{HasPat: true, Pat: map[string]interface{}{"nope": 1.0}, Target: "n0"}}
			}
			// (sometimes for a machine that was created without bindings: what the error state records of them has to
			// survive the round trip, too)
			if nilStart = p(0.4); nilStart {
				// ... and its very first step is the failing action
				a.Nodes["n0"] = a.Nodes["n1"]
			}
		}
		for len(ms) < 3 {
			ms = append(ms, pick(msgs))
		}
	}
	var saveAt []int
	for i := range ms {
		if p(0.5) {
			saveAt = append(saveAt, i)
		}
	}
	if len(saveAt) == 0 {
		saveAt = []int{len(ms) - 1}
	}
	if nilStart {
		nilStart = false
		return persistCase(id, a, nil, ms, saveAt)
	}
	return persistCase(id, a, genBs(b), ms, saveAt)
}

var nilStart bool

// ineqAct: an action computes the bound of an inequality variable and - sometimes - the value of its plain counterpart, too
// (both are integers for the script; what they are for the matcher must not depend on a round trip of the state)
func ineqAct(ineq string, bound interface{}) []mach.Op {
	ops := []mach.Op{{Name: "set", K: ineq, V: bound}}
	if p(0.5) {
		ops = append(ops, mach.Op{Name: "set", K: "?lim", V: pick([]interface{}{float64(3), float64(5), float64(7), float64(0)})})
	}
	return ops
}

func max(a, b int) int {
	if a > b {
		return a
	}
	return b
}

// ---------------------------------------------------------------- main

var biases = map[string]bias{
	"step":   {fail: 0.25, perm: 0.15, emit: 0, bad: 0.03, loop: 0.0, native: 0.3, nilbs: 0.06, guard: 0.35},
	"frame":  {fail: 0.5, perm: 0.15, emit: 0, bad: 0.05, loop: 0.0, native: 0.3, nilbs: 0, guard: 0.4, typed: 0.2},
	"total":  {fail: 0.6, perm: 0.4, emit: 0, bad: 0.1, loop: 0.03, native: 0.4, nilbs: 0.15, guard: 0.5, hostile: 0.06},
	"exotic": {fail: 0.3, perm: 0.2, emit: 0, bad: 0.0, loop: 0.0, native: 0.2, nilbs: 0.05, guard: 0.5, exotic: 0.5},
	"emit":   {fail: 0.6, perm: 0.05, emit: 0.2, bad: 0.02, loop: 0.02, native: 0.0, nilbs: 0, guard: 0.4, exotic: 0.12},
	"perm":   {fail: 0.4, perm: 0.8, emit: 0, bad: 0.0, loop: 0.0, native: 0.5, nilbs: 0, guard: 0.5, inplace: 0.4},
	"walk":   {fail: 0.2, perm: 0.1, emit: 0.1, bad: 0.02, loop: 0.0, native: 0.3, nilbs: 0.02, guard: 0.3},
}

// the documented fallback when no control is given; lowered from 100 so that chains of
// error states (each nests the previous bindings under lastBindings) stay shallow enough
// for the trace reader
const defaultLimit = 25

func main() {
	// (a small stack limit: a recursion over a deeply nested value ends the process after 64 MB instead of 1 GB, so the
	// matchdeep op can do with a value that is quick to build - under load a million levels took longer than the watchdog waits)
	debug.SetMaxStack(64 << 20)
	core.DefaultControl = &core.Control{Limit: defaultLimit}
	switch os.Args[1] {
	case "gen":
		mode := os.Args[2]
		n, _ := strconv.Atoi(os.Args[3])
		seed, _ := strconv.Atoi(os.Args[4])
		rng = rand.New(rand.NewSource(int64(seed)))
		out := newOut(os.Args[5])
		defer out.close()
		for id := 1; id <= n; id++ {
			switch mode {
			case "walk":
				out.write(genWalk(id, mode, biases[mode]))
			case "persist":
				out.write(genPersist(id))
			case "totalwalk":
				out.write(genWalk(id, mode, biases["total"]))
			default:
				b, ok := biases[mode]
				if !ok {
					check(fmt.Errorf("unknown mode %s", mode))
				}
				if mode == "exotic" && id%150 == 1 {
					forceMatchdeep = true
				}
				out.write(genStep(id, mode, b))
			}
		}
	case "univ":
		// step cases enumerated by TLC (spec/MC_Step.tla)
		in, err := os.Open(os.Args[2])
		check(err)
		out := newOut(os.Args[3])
		defer out.close()
		sc := bufio.NewScanner(in)
		sc.Buffer(make([]byte, 1<<20), 1<<26)
		id := 0
		for sc.Scan() {
			var c struct {
				Node    map[string]interface{}
				Aeb     bool
				Aen     string
				Bs      interface{}
				Pending interface{}
			}
			check(json.Unmarshal(sc.Bytes(), &c))
			id++
			a := &mach.ASpec{Nodes: map[string]*mach.ANode{"n0": mach.DecNode(c.Node), "n1": {NoBr: true}}, AEB: c.Aeb, AEN: c.Aen}
			in := stepIn{a: a, node: "n0", bs: enc.DBs(c.Bs)}
			if p, is := c.Pending.([]interface{}); is && p[0] != "nomsg" {
				in.pending = enc.D(p)
			}
			out.write(stepCase(id, "univ", in))
		}
		check(sc.Err())
	case "univwalk":
		// walk configurations enumerated by TLC (spec/MC_Walk.tla)
		in, err := os.Open(os.Args[2])
		check(err)
		out := newOut(os.Args[3])
		defer out.close()
		sc := bufio.NewScanner(in)
		sc.Buffer(make([]byte, 1<<20), 1<<26)
		id := 0
		for sc.Scan() {
			var c struct {
				Nodes map[string]map[string]interface{}
				Bs    interface{}
				Msgs  []interface{}
				Limit int
				Bps   []string
			}
			check(json.Unmarshal(sc.Bytes(), &c))
			id++
			a := &mach.ASpec{Nodes: map[string]*mach.ANode{}}
			for name, n := range c.Nodes {
				a.Nodes[name] = mach.DecNode(n)
			}
			var ms []interface{}
			for _, m := range c.Msgs {
				ms = append(ms, enc.D(m))
			}
			bs := enc.DBs(c.Bs)
			out.write(walkCase(id, "walk", walkIn{a: a, node: "n0", bs: bs, msgs: ms, limit: c.Limit, bps: c.Bps, orig: copyBs(bs)}, true))
		}
		check(sc.Err())
	case "collections":
		// stepdrv collections <k> <out>: one step of a machine whose action builds an ES2015 collection (Map, Set) that
		// contains itself and returns, emits or stores it.  One script per process: a script that the engine does not
		// survive takes the process with it (the caller sees that).
		k, _ := strconv.Atoi(os.Args[2])
		src := collectionScripts[k%len(collectionScripts)]
		spec := &core.Spec{Name: "collections", Nodes: map[string]*core.Node{
			"n0": {ActionSource: &core.ActionSource{Interpreter: "ecmascript", Source: src},
				Branches: &core.Branches{Type: "bindings", Branches: []*core.Branch{{Target: "n1"}}}},
			"n1": {}}}
		check(spec.Compile(context.Background(), nil, true))
		out := newOut(os.Args[3])
		defer out.close()
		stride, err := spec.Step(context.Background(), &core.State{NodeName: "n0", Bs: match.NewBindings()}, nil, core.DefaultControl, nil)
		o := O{"id": k, "kind": "collections", "source": src, "outcome": "returned", "errtext": "", "to": "none"}
		if err != nil {
			o["outcome"], o["errtext"] = "error", err.Error()
		} else if stride != nil && stride.To != nil {
			o["to"] = stride.To.NodeName
			if e, have := stride.To.Bs["error"]; have {
				o["errtext"] = fmt.Sprint(e)
			}
		}
		out.write(o)
	case "replay":
		js, err := os.ReadFile(os.Args[2])
		check(err)
		var r struct {
			Case struct {
				Kind string
				Raw  string
			}
		}
		check(json.Unmarshal(js, &r))
		out := newOut(os.Args[3])
		defer out.close()
		var raw struct {
			Spec    *mach.ASpec
			Node    string
			Bs      map[string]interface{}
			Pending interface{}
			Msgs    []interface{}
			Limit   int
			Bps     []string
			Nilctl  bool
			Props   map[string]interface{}
		}
		check(json.Unmarshal([]byte(r.Case.Raw), &raw))
		var bs match.Bindings
		if raw.Bs != nil {
			bs = match.Bindings(raw.Bs)
		}
		if r.Case.Kind == "persist" {
			var pr struct {
				SaveAt []int
			}
			check(json.Unmarshal([]byte(r.Case.Raw), &pr))
			out.write(persistCase(1, raw.Spec, bs, raw.Msgs, pr.SaveAt))
		} else if raw.Msgs != nil || r.Case.Kind == "walk" || r.Case.Kind == "totalwalk" {
			var props core.StepProps
			if raw.Props != nil {
				props = core.StepProps(raw.Props)
			}
			out.write(walkCase(1, r.Case.Kind, walkIn{a: raw.Spec, node: raw.Node, bs: bs, msgs: raw.Msgs, limit: raw.Limit, bps: raw.Bps, nilCtl: raw.Nilctl, orig: copyBs(bs), props: props}, true))
		} else {
			var props core.StepProps
			if raw.Props != nil {
				props = core.StepProps(raw.Props)
			}
			out.write(stepCase(1, r.Case.Kind, stepIn{a: raw.Spec, node: raw.Node, bs: bs, pending: raw.Pending, nilCtl: raw.Nilctl, props: props}))
		}
	default:
		check(fmt.Errorf("usage"))
	}
}

type outW struct {
	f *os.File
	w *bufio.Writer
	e *json.Encoder
}

func newOut(path string) *outW {
	f, err := os.Create(path)
	check(err)
	w := bufio.NewWriterSize(f, 1<<20)
	e := json.NewEncoder(w)
	e.SetEscapeHTML(false)
	return &outW{f, w, e}
}
func (o *outW) write(c O) {
	if c["kind"] == "compile-error" {
		fmt.Fprintln(os.Stderr, "stepdrv: generated spec does not compile:", c["errtext"])
		return
	}
	check(o.e.Encode(c))
}
func (o *outW) close() { o.w.Flush(); o.f.Close() }

func check(err error) {
	if err != nil {
		fmt.Fprintln(os.Stderr, "stepdrv:", err)
		os.Exit(2)
	}
}
